"""Per-property job definitions and evidence assembly."""
import os, json, hashlib, sys
sys.path.insert(0, os.path.dirname(os.path.abspath(__file__)) + '/..')


class Ctx:
    def __init__(self, **kw):
        self.__dict__.update(kw)

    @property
    def quick(self):
        return self.tier != 'thorough'


def _check():
    # late import: GJob lives in the check script (no .py suffix)
    import importlib.machinery, importlib.util
    p = os.path.join(os.path.dirname(os.path.abspath(__file__)), '..', 'check')
    if 'verif_check' in sys.modules:
        return sys.modules['verif_check']
    loader = importlib.machinery.SourceFileLoader('verif_check', p)
    spec = importlib.util.spec_from_loader('verif_check', loader)
    m = importlib.util.module_from_spec(spec)
    sys.modules['verif_check'] = m
    loader.exec_module(m)
    return m


def H(ctx, *parts):
    return os.path.join(ctx.verif, 'harness', *parts)


PROPS = {}


def prop(pid, **kw):
    def deco(fn):
        kw['jobs'] = fn
        PROPS[pid] = kw
        return fn
    return deco


RT = 'runtime/internal/runtime'


STANDINS = {
    'github.com/goplus/llgo/runtime/internal/clite': ('clite', 'c.go'),
    'github.com/goplus/llgo/runtime/internal/clite/bdwgc': ('bdwgc', 'bdwgc.go'),
    'github.com/goplus/llgo/runtime/internal/clite/pthread/sync': ('psync', 'sync.go'),
    'github.com/goplus/llgo/runtime/internal/clite/pthread': ('pthread', 'pthread.go'),
    'github.com/goplus/llgo/runtime/internal/lib/sync/atomic': ('latomic', 'atomic.go'),
}


def slice_replay(standins=STANDINS, slicepkg='internal/zzslice', extra_roots=(), inpkg=None, gosync=False):
    """R2 replay: verbatim declaration slice of the package (function bodies
    byte-identical to the working tree) compiled natively against Go stand-ins
    of the FFI leaf packages, run on the model."""
    def run(job, h, model, d, test, mf):
        C = _check()
        moddir = job.moddir
        modpath = open(os.path.join(moddir, 'go.mod')).read().split('\n')[0].split()[1]
        out = os.path.join(d, 'slice.go')
        cmd = [C.BIN, 'slice', '--dir', moddir, '--pkg', job.pkg, '--out', out, '--pkgname', job.pkgname,
               '--root', h, '--root', 'nd_failed', '--root', 'nd_assumeFailed', '--root', 'nd_setrand']
        for r in extra_roots:
            cmd += ['--root', r]
        if inpkg:
            cmd += ['--skip-bodiless']
        if job.tags:
            cmd += ['--tags', job.tags]
        for v, r in job.overlays():
            cmd += ['--overlay', '%s=%s' % (v, r)]
        ov = {}
        for imp, (sd, f) in standins.items():
            real = os.path.join(ctx_verif(), 'harness', 'standins', sd, f)
            if not os.path.exists(real):
                continue
            virt = modpath + '/internal/zzstand/' + sd
            cmd += ['--rewrite', '%s=%s' % (imp, virt)]
            ov[os.path.join(moddir, 'internal/zzstand', sd, f)] = real
        if gosync:
            # GOROOT's sync sources (the ones llgo compiles) as a stand-in package whose
            # runtime_* hooks call back into the sliced llgo runtime package
            rcg, goroot = C.sh(['go', 'env', 'GOROOT'], cwd=moddir)
            goroot = goroot.strip().split('\n')[-1]
            zs = modpath + '/internal/zzstand/'
            for f in ['mutex.go', 'rwmutex.go', 'waitgroup.go', 'once.go', 'cond.go', 'runtime2.go']:
                sp = os.path.join(goroot, 'src', 'sync', f)
                if not os.path.exists(sp):
                    return 2, 'gosync stand-in: %s not found (sync layout of this Go release is not supported by the replay)' % sp
                txt = open(sp).read().replace('"sync/atomic"', '"%sgatomic"' % zs).replace('"internal/race"', '"%sgrace"' % zs)
                import re as _re
                txt = _re.sub(r'(?m)^//go:linkname .*$', '//', txt)  # push-linknames into other std packages would clash with the host's sync
                txt = _re.sub(r'(?m)^func (throw|fatal)\(string\).*$', '', txt)  # bodiless (provided by the runtime); runtime.go of the stand-in defines them
                tp = os.path.join(d, 'gosync_' + f)
                open(tp, 'w').write(txt)
                ov[os.path.join(moddir, 'internal/zzstand/gosync', f)] = tp
            sd = os.path.join(ctx_verif(), 'harness', 'standins')
            ov[os.path.join(moddir, 'internal/zzstand/gosync/runtime.go')] = os.path.join(sd, 'gosync', 'runtime.go')
            ov[os.path.join(moddir, 'internal/zzstand/gatomic/atomic.go')] = os.path.join(sd, 'gatomic', 'atomic.go')
            ov[os.path.join(moddir, 'internal/zzstand/grace/race.go')] = os.path.join(sd, 'grace', 'race.go')
            cmd += ['--rewrite', 'sync=%sgosync' % zs]
        rc, log = C.sh(cmd, timeout=300)
        if rc != 0:
            return 2, 'slice failed: ' + log
        ov[os.path.join(moddir, slicepkg, 'slice.go')] = out
        if inpkg:
            ov[os.path.join(moddir, slicepkg, 'zz_standin_inpkg.go')] = os.path.join(ctx_verif(), 'harness', 'standins', inpkg)
            # the in-package stand-in imports the scheduler stand-in
            ov[os.path.join(moddir, 'internal/zzstand/psync/sync.go')] = os.path.join(ctx_verif(), 'harness', 'standins', 'psync', 'sync.go')
        ov[os.path.join(moddir, slicepkg, 'zz_replay_test.go')] = test
        ovf = os.path.join(d, 'ov.json')
        json.dump({'Replace': ov}, open(ovf, 'w'))
        tb = os.path.join(d, 'replay.test')
        cmdt = ['go', 'test', '-c', '-vet=off', '-overlay', ovf, '-o', tb, './' + slicepkg]
        try:
            rc, log = C.sh(cmdt, cwd=moddir, timeout=600)
            if rc != 0:
                return 2, 'replay build failed: ' + log
            env = {'SYMX_MODEL': mf}
            ex = job.extra or []
            if '--preempt' in ex:
                env['SYMX_PREEMPT'] = ex[ex.index('--preempt') + 1]
            if '--spurious' in ex:
                env['SYMX_SPURIOUS'] = ex[ex.index('--spurious') + 1]
            return C.sh([tb, '-test.run', 'TestZZReplay', '-test.v'], cwd=d, env=env, timeout=300)
        except Exception as e:
            return 2, 'replay error %s' % e
    return run


def ctx_verif():
    return os.path.join(os.path.dirname(os.path.abspath(__file__)), '..')


def rt_job(ctx, name, files, **kw):
    """G job on llgo's runtime package (module /repo/runtime)."""
    C = _check()
    kw.setdefault('replay', slice_replay(inpkg='rt_inpkg.go'))
    return C.GJob(name, os.path.join(ctx.repo, 'runtime'), './internal/runtime', 'runtime',
                  os.path.join(ctx.repo, RT), files, tags='llgo', **kw)


def tool_job(ctx, name, pkgrel, pkgname, files, **kw):
    """G job on a tool-side package of the main module."""
    C = _check()
    return C.GJob(name, ctx.repo, './' + pkgrel, pkgname, os.path.join(ctx.repo, pkgrel), files, **kw)


# ---------------------------------------------------------------------------

@prop('C05', level='other', title='slices and strings')
def c05(ctx):
    q = ctx.quick
    return [
        rt_job(ctx, 'utf8', [H(ctx, 'C05', 'utf8_h.go')], unwind=12, deadline_s=600 if q else 2400),
        rt_job(ctx, 'slice', [H(ctx, 'C05', 'slice_h.go')], unwind=100, deadline_s=600 if q else 2400),
        rt_job(ctx, 'string', [H(ctx, 'C05', 'string_h.go')], unwind=40, deadline_s=600 if q else 2400),
    ]


# ---------------------------------------------------------------------------

def evidence(pid, P, ctx, results, violations, knownhits, unconfirmed, infra, wall):
    obl = dis = paths = queries = 0
    solver_s = 0.0
    encoded, stubs, files, inconcl, samples, harn = set(), set(), {}, [], [], []
    oblids = {}
    bysolver = {}
    for j, h, r in results:
        if r.get('error'):
            inconcl.append({'harness': h, 'reason': 'error: ' + r['error'][:200]})
            continue
        obl += r['obligations']
        dis += r['discharged']
        paths += r['paths']
        queries += r['queries']
        solver_s += r['solver_s']
        encoded.update(r.get('encoded') or [])
        stubs.update(r.get('stubs') or [])
        for f in r.get('files') or []:
            if f.startswith(ctx.repo) and 'zz_verif' not in f:
                files[f] = None
        for i in r.get('inconclusive') or []:
            inconcl.append({'harness': h, 'id': i['ID'], 'reason': i['Reason']})
        for k, v in (r.get('obl_ids') or {}).items():
            o = oblids.setdefault(k, {'total': 0, 'trivial': 0, 'unsat': 0, 'sat': 0, 'unknown': 0})
            o['total'] += v['Total']; o['trivial'] += v['Trivial']; o['unsat'] += v['Unsat']; o['sat'] += v['Sat']; o['unknown'] += v['Unknown']
        for k, v in (r.get('by_solver') or {}).items():
            bysolver[k] = bysolver.get(k, 0) + v
        if r.get('samples') and len(samples) < 4:
            samples.append({'harness': h, 'obligation_smtlib': r['samples'][0][:1200]})
        harn.append({'job': j.name, 'harness': h, 'paths': r['paths'], 'obligations': r['obligations'], 'discharged': r['discharged'],
                     'queries': r['queries'], 'solver_s': round(r['solver_s'], 2), 'wall_s': round(r['wall_s'], 2), 'unwind': r.get('unwind'),
                     'paths_ended': r.get('paths_ended'), 'reached': r.get('reached')})
    for f in list(files):
        try:
            files[f] = hashlib.sha256(open(f, 'rb').read()).hexdigest()[:16]
        except Exception:
            pass
    nontrivial = sorted(k for k, v in oblids.items() if v['unsat'] + v['sat'] > 0)
    for f, path in violations:
        samples.append({'violation': f['ID'], 'model': f.get('Model'), 'replay': path})
    if not samples:
        samples.append({'note': 'no obligation needed the solver'})
    level = P.get('level', 'other')
    cov = {
        'explanation': P.get('explanation', '') or ('bounded symbolic execution of the real code (go/ssa or llgo-emitted IR) with an SMT solver deciding every '
                        'obligation for all inputs inside the stated bounds; see DESIGN.md section for ' + pid),
        'evaluations': paths,
        'distinct_nontrivial': len(nontrivial),
        'rule': 'evaluations = symbolic paths explored; distinct_nontrivial = distinct obligation ids for which at least one solver query '
                '(not constant folding) decided the obligation on some path',
        'samples': samples,
        'obligations': obl,
        'discharged': dis,
        'obligation_ids': oblids,
        'queries': queries,
        'solver_s': round(solver_s, 2),
        'by_solver': bysolver,
        'functions_encoded': sorted(encoded),
        'source_files': files,
        'stubs_used': sorted(stubs),
        'harnesses': harn,
        'inconclusive': inconcl,
        'unconfirmed_models': [{'obligation': f['ID'], 'cex': p} for f, p, _ in unconfirmed],
        'known_findings_hit': [k['text'] for _, k in knownhits],
        'infrastructure_errors': infra,
        'bounds': P.get('bounds', {}),
        'checker_cmd': './check %s --tier %s' % (pid, ctx.tier),
        'trusted_base': ['z3 4.8.12 / z3 5.1.0 / cvc5 1.0.3', 'go/packages + go/ssa (x/tools v0.36.0)', 'symx encodings of Go spec semantics and intrinsic models (DESIGN.md 2.4)'],
    }
    if level == 'translation_validation':
        cov['programs'] = sum(len(r.get('functions') or [1]) for _, _, r in results if not r.get('error'))
        cov['disagreements_checked'] = len(violations) + len(unconfirmed) + len(knownhits)
    if level == 'model_checking':
        cov['states'] = max(paths, 1)
        cov['transitions'] = max(queries, 1)
        cov['traces_validated_against_impl'] = len(violations) + len(knownhits)
    return {
        'property_id': pid, 'tier': 'thorough' if ctx.tier == 'thorough' else 'quick', 'seed': ctx.seed, 'level': level,
        'coverage': cov, 'assumptions': P.get('assumptions', []) + sorted(stubs), 'wall_s': round(wall, 2),
        'violations': len(violations),
    }


@prop('C17', level='other', title='command lines, flags, directives')
def c17(ctx):
    q = ctx.quick
    return [
        tool_job(ctx, 'shellparse', 'internal/shellparse', 'shellparse', [H(ctx, 'C17', 'shell_h.go')], unwind=40, deadline_s=600 if q else 2400,
                 only=['H_shell_dq1_2', 'H_shell_dq2_11', 'H_shell_sq', 'H_shell_unterminated', 'H_shell_plain'] if q else None),
        tool_job(ctx, 'safesplit', 'xtool/safesplit', 'safesplit', [H(ctx, 'C17', 'pkgconfig_h.go')], unwind=40, deadline_s=600 if q else 2400),
        tool_job(ctx, 'env', 'internal/env', 'env', [H(ctx, 'C17', 'env_h.go')], unwind=40, deadline_s=600 if q else 2400),
        tool_job(ctx, 'buildtags', 'internal/buildtags', 'buildtags', [H(ctx, 'C17', 'tags_h.go')], unwind=40, deadline_s=600 if q else 2400),
    ]


@prop('C18', level='other', title='target descriptions')
def c18(ctx):
    import subprocess
    gen = os.path.join(ctx.scratch, 'c18_merge_h.go')
    subprocess.check_call(['python3', H(ctx, 'C18', 'gen_merge.py'), os.path.join(ctx.repo, 'internal/targets/config.go'), gen])
    q = ctx.quick
    return [
        tool_job(ctx, 'merge', 'internal/targets', 'targets', [gen], unwind=16, deadline_s=300),
        tool_job(ctx, 'inherit', 'internal/targets', 'targets', [H(ctx, 'C18', 'inherit_h.go')], unwind=16, deadline_s=900 if q else 3000,
                 only=['H_inherit2', 'H_inherit3'] if q else ['H_inherit2', 'H_inherit3', 'H_inherit3full'], extra=['--recursion-fails', 'C18.inherit.terminates', '--maxdepth', '40']),
    ]


def c20_replay(job, h, model, d, test, mf):
    """R1 replay for C20: a real archive built from the model, the real
    extract function, the real file system (temp dir)."""
    C = _check()
    ov = {os.path.join(job.injectdir, 'zz_verif_c20_replay_test.go'): os.path.join(ctx_verif(), 'harness/C20/replay_test.go.txt')}
    ovf = os.path.join(d, 'ov.json')
    json.dump({'Replace': ov}, open(ovf, 'w'))
    return C.sh(['go', 'test', '-vet=off', '-count=1', '-overlay', ovf, '-run', 'TestZZReplayC20', '-v', job.pkg], cwd=job.moddir,
                env={'SYMX_MODEL': mf, 'SYMX_HARNESS': h}, timeout=600)


@prop('C20', level='other', title='archive extraction stays inside its destination')
def c20(ctx):
    q = ctx.quick
    nl, ne = (5, 1) if q else (7, 2)
    return [
        tool_job(ctx, 'extract', 'internal/crosscompile', 'crosscompile', [H(ctx, 'C20', 'extract_h.go')], unwind=40,
                 deadline_s=900 if q else 3000, extra=['--stubs', 'archive:%d:%d' % (nl, ne)], replay=c20_replay),
    ]


def gen_c02(ctx):
    def g(d):
        import subprocess
        subprocess.check_call(['python3', H(ctx, 'C02', 'gen.py'), d, ctx.tier], stdout=subprocess.DEVNULL)
    return g


@prop('C02', level='translation_validation', title='numeric operators and conversions')
def c02(ctx):
    C = _check()
    import subprocess
    cd = os.path.join(ctx.scratch, 'c02_cdiv_h.go')
    subprocess.check_call(['python3', H(ctx, 'C02', 'gen_cdiv.py'), ctx.repo, cd])
    return [C.TVJob('ops', gen_c02(ctx), 'tvc02', chunks=16, deadline_s=60 if ctx.quick else 300, prefix='C02.', extra=['--assume-fp-range']),
            # the runtime's complex division against the reference toolchain's own complex128div on the special-value grid
            rt_job(ctx, 'cdiv', [cd], unwind=10, deadline_s=900)]


def gen_py(ctx, prop):
    def g(d):
        import subprocess
        subprocess.check_call(['python3', H(ctx, prop, 'gen.py'), d, ctx.tier], stdout=subprocess.DEVNULL)
    return g


@prop('C03', level='translation_validation', title='mandated run-time panics')
def c03(ctx):
    C = _check()
    return [
        C.TVJob('forms', gen_py(ctx, 'C03'), 'tvc03', chunks=12, deadline_s=60 if ctx.quick else 300, prefix='C03.'),
        rt_job(ctx, 'rtchecks', [H(ctx, 'C05', 'slice_h.go'), H(ctx, 'C03', 'rt_h.go')], unwind=100, deadline_s=600,
               only=['H_slice3_et1', 'H_slice3_et24', 'H_makeslice_et1', 'H_makeslice_et8', 'H_makeslice_et0', 'H_strslice', 'H_assert_flags']),
    ]


@prop('C16', level='other', title='go:embed directive parsing')
def c16(ctx):
    import subprocess
    gen = os.path.join(ctx.scratch, 'c16_embed_h.go')
    subprocess.check_call(['python3', H(ctx, 'C16', 'gen.py'), ctx.repo, gen])
    q = ctx.quick
    return [tool_job(ctx, 'directive', 'internal/goembed', 'goembed', [gen], unwind=60, deadline_s=900 if q else 5400,
                     only=['H_embed_prefix', 'H_embed_args3', 'H_fsorder'] if q else ['H_embed_prefix', 'H_embed_args3', 'H_embed_args4', 'H_fsorder'])]


def gen_corpus(ctx, prop, modname):
    """Copies the hand-written corpus files of a property into a scratch module
    and derives meta.json (exported functions and their parameter types)."""
    def g(d):
        import re, glob, shutil
        os.makedirs(d, exist_ok=True)
        open(os.path.join(d, 'go.mod'), 'w').write('module %s\n\ngo 1.24\n' % modname)
        meta = {}
        for f in sorted(glob.glob(H(ctx, prop, 'corpus_*.go'))):
            shutil.copy(f, d)
            for m in re.finditer(r'^func ([A-Z]\w*)\(([^)]*)\) (?:\((\w+ )?([^)]+)\)|(\S+)) \{', open(f).read(), re.M):
                name, ps, res = m.group(1), m.group(2), (m.group(4) or m.group(5) or '').strip()
                params = []
                pend = []
                for part in [x.strip() for x in ps.split(',') if x.strip()]:
                    bits = part.split(' ', 1)
                    if len(bits) == 1:
                        pend.append(bits[0])
                    else:
                        for n in pend:
                            params.append((n, bits[1]))
                        pend = []
                        params.append((bits[0], bits[1]))
                meta[name] = {'params': params, 'result': res, 'group': 'corpus'}
        json.dump(meta, open(os.path.join(d, 'meta.json'), 'w'))
    return g


@prop('C01', level='translation_validation', title='core language')
def c01(ctx):
    C = _check()
    return [
        # the IR as cl/ssa emit it, and the IR after the C-ABI transformation build.Do applies to every module by default
        C.TVJob('corpus', gen_corpus(ctx, 'C01', 'tvc01'), 'tvc01', chunks=8, unwind=8, deadline_s=120 if ctx.quick else 600, prefix='C01.'),
        C.TVJob('corpus-cabi', gen_corpus(ctx, 'C01', 'tvc01'), 'tvc01', chunks=8, unwind=8, deadline_s=120 if ctx.quick else 600, prefix='C01.cabi.', extra=['--abi', '2']),
        # random functions from a statement grammar (48 quick, 200 thorough; VERIF_SEED selects the sample)
        C.TVJob('generated', gen_py(ctx, 'C01'), 'tvc01gen', chunks=16, unwind=8, deadline_s=30 if ctx.quick else 90, timeout_ms=4000 if ctx.quick else 10000, prefix='C01.gen.'),
    ]


@prop('C04', level='translation_validation', title='defer, panic, recover ordering')
def c04(ctx):
    C = _check()
    return [C.TVJob('shapes', gen_py(ctx, 'C04'), 'tvc04', chunks=12, unwind=8, deadline_s=120 if ctx.quick else 600, prefix='C04.')]


@prop('C10', level='model_checking', title='channels under every schedule')
def c10(ctx):
    q = ctx.quick
    return [rt_job(ctx, 'chan', [H(ctx, 'C10', 'chan_h.go')], unwind=30, deadline_s=900 if q else 3000, extra=['--spurious', '0' if q else '1', '--sched-steps', '300', '--preempt', '2' if q else '3'])]


def librt_job(ctx, name, files, **kw):
    """G job on llgo's replacement of package runtime (runtime/internal/lib/runtime)."""
    C = _check()
    kw.setdefault('replay', slice_replay())
    return C.GJob(name, os.path.join(ctx.repo, 'runtime'), './internal/lib/runtime', 'runtime',
                  os.path.join(ctx.repo, 'runtime/internal/lib/runtime'), files, tags='llgo', **kw)


@prop('C11', level='model_checking', title='semaphores, notify lists, atomics under contention')
def c11(ctx):
    q = ctx.quick
    C = _check()
    ex = ['--spurious', '0' if q else '1', '--sched-steps', '300', '--preempt', '2' if q else '3']
    value = C.GJob('value', os.path.join(ctx.repo, 'runtime'), './internal/lib/sync/atomic', 'atomic',
                   os.path.join(ctx.repo, 'runtime/internal/lib/sync/atomic'), [H(ctx, 'C11', 'value_h.go')], tags='llgo', unwind=30,
                   deadline_s=900 if q else 3000, extra=['--spurious', '0', '--sched-steps', '300', '--preempt', '2'],
                   replay=slice_replay(inpkg='latomic_inpkg.go'))  # Value has no condition variables; preemption bound 2 in both tiers (3 does not finish)
    sync_roots = ['sync_runtime_Semacquire', 'sync_runtime_SemacquireWaitGroup', 'sync_runtime_SemacquireMutex', 'sync_runtime_SemacquireRWMutexR',
                  'sync_runtime_SemacquireRWMutex', 'sync_runtime_Semrelease', 'sync_runtime_notifyListAdd', 'sync_runtime_notifyListWait',
                  'sync_runtime_notifyListNotifyAll', 'sync_runtime_notifyListNotifyOne', 'sync_runtime_canSpin', 'sync_runtime_doSpin', 'nd_int64']
    syncj = librt_job(ctx, 'sync', [H(ctx, 'C11', 'ndgo_h.go'), H(ctx, 'C11', 'sync_h.go')], unwind=30, deadline_s=900 if q else 3000,
                      replay=slice_replay(extra_roots=sync_roots, inpkg='librt_sync_inpkg.go', gosync=True),
                      only=['H_sync_mutex2', 'H_sync_mutex_relock', 'H_sync_mutex3', 'H_sync_rwmutex', 'H_sync_rwmutex_2w', 'H_sync_waitgroup',
                            'H_sync_waitgroup_2wait', 'H_sync_once', 'H_sync_cond_signal', 'H_sync_cond_broadcast1', 'H_sync_trylock', 'H_sync_rw_try', 'H_sync_waitgroup_reuse'] if q else None,
                      extra=['--real-sync', '--spurious', '0', '--sched-steps', '400', '--preempt', '2'])  # preemption bound 2 in both tiers; thorough adds the two-waiter Cond configurations
    return [librt_job(ctx, 'sema', [H(ctx, 'C11', 'ndgo_h.go'), H(ctx, 'C11', 'sema_h.go')], unwind=30, deadline_s=900 if q else 3000, extra=ex), value, syncj]


@prop('C06', level='other', title='maps behave as finite maps')
def c06(ctx):
    q = ctx.quick
    only = ['H_map_p0_ops2', 'H_map_p7_ops1', 'H_map_p8_ops1', 'H_map_clear_refill', 'H_map_clear_regrow', 'H_map_clear_rounds', 'H_map_chain2', 'H_map_nil',
            'H_map_samesize_iter', 'H_map_samesize_iter_del', 'H_map_samesize_clear', 'H_map_nan_iter_grow', 'H_map_nan_iter_grow_wide', 'H_map_float_zero_nan'] if q else None
    return [rt_job(ctx, 'map', [H(ctx, 'C06', 'map_h.go')], unwind=200, deadline_s=900 if q else 3000, only=only)]


def multi_tv(ctx, pid, merge=False, unwind=8, deadline_s=120):
    """One TV job per generated multi-package program of harness/<pid>/gen.py
    (package initialisers run on both sides before Run()); with merge=True a
    second job per program proves all multiply-defined mergeable symbols
    equivalent."""
    C = _check()
    import subprocess
    root = os.path.join(ctx.scratch, 'tv' + pid.lower())
    subprocess.check_call(['python3', H(ctx, pid, 'gen.py'), root, ctx.tier], stdout=subprocess.DEVNULL)
    progs = json.load(open(os.path.join(root, 'programs.json')))
    jobs = []
    for name, pr in sorted(progs.items()):
        meta = {fn: {'params': m['params'], 'result': m['result']} for fn, m in pr['funcs'].items()}
        json.dump(meta, open(os.path.join(pr['dir'], 'meta.json'), 'w'))
        kinds = [('init-', [], meta)]
        if merge:
            kinds.append(('merge-', ['--merge'], {'merge': {'params': [], 'result': 'int'}}))
        for pre, extra, mt in kinds:
            j = C.TVJob(pre + name, (lambda d: None), pr['pkgpath'], chunks=1, unwind=unwind, deadline_s=deadline_s, prefix='%s.%s.' % (pid, name),
                        pkgs=pr['pkgs'], init_first=True, extra=extra)
            j.dir = pr['dir']
            j.meta = mt
            jobs.append(j)
    return jobs


@prop('C12', level='translation_validation', title='package initialisation order')
def c12(ctx):
    """One TV job per generated multi-package program: the synthesized package
    initialisers (dependencies first, variables in dependency order, init
    functions in file order) run on both sides before Run()."""
    return multi_tv(ctx, 'C12')


@prop('C07', level='translation_validation', title='dynamic type identity and interface satisfaction')
def c07(ctx):
    """Near-miss type pairs and (concrete type, interface) pairs meet at run time
    in generated multi-package programs; the oracle decides identity with
    go/types, llgo's side runs its descriptors through its own runtime source."""
    return multi_tv(ctx, 'C07', merge=True, unwind=12, deadline_s=300)


@prop('C14', level='translation_validation', title='link names unique and consistent')
def c14(ctx):
    """Naming-stress programs validated against the oracle, plus solver-checked
    equivalence of every symbol that several modules define."""
    return multi_tv(ctx, 'C14', merge=True)


@prop('C09', level='other', title='values cross the Go/C boundary intact')
def c09(ctx):
    """(a) C-string / C-buffer helpers of the runtime on arbitrary strings and
    arbitrary previous buffer contents.  (b) struct shapes crossing the boundary
    in four directions: llgo's IR (after its C-ABI transformation) and the host C
    compiler's IR of the other side executed together on symbolic field values."""
    q = ctx.quick
    C = _check()
    import subprocess

    def gen(d):
        subprocess.check_call(['python3', H(ctx, 'C09', 'gen_abi.py'), d, ctx.tier], stdout=subprocess.DEVNULL)
    abi = C.CabiJob('abi', gen, 'tvc09abi', 'c/wrap.c', chunks=16, deadline_s=120, prefix='C09.abi.')
    return [rt_job(ctx, 'cstr', [H(ctx, 'C09', 'cstr_h.go')], unwind=16, deadline_s=300 if q else 1200), abi]
