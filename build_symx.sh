#!/bin/bash
# Builds symx inside /repo's module through a go build overlay (no files are
# written into /repo).  Output: /verif/.bin/symx
set -e
cd /verif
mkdir -p .bin .cache
export GOFLAGS=-mod=mod GOPROXY=off
python3 - <<'PY'
import os, json
m = {}
for root, dirs, files in os.walk('/verif/symx'):
    for f in files:
        if f.endswith('.go') or f.endswith('.c') or f.endswith('.h'):
            real = os.path.join(root, f)
            virt = '/repo/zz_verif_symx' + real[len('/verif/symx'):]
            m[virt] = real
json.dump({"Replace": m}, open('/verif/.cache/overlay.json', 'w'))
PY
cd /repo
go build -tags llvm14 -overlay /verif/.cache/overlay.json -o /verif/.bin/symx ./zz_verif_symx/cmd/symx
