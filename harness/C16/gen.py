#!/usr/bin/env python3
"""Generates the C16 harness: the reference toolchain's own parseGoEmbed is
copied verbatim from GOROOT/src/go/build/read.go at check time."""
import re, subprocess, sys, os

goroot = subprocess.check_output(['go', 'env', 'GOROOT'], cwd=sys.argv[1]).decode().strip()
src = open(os.path.join(goroot, 'src/go/build/read.go')).read()
m = re.search(r'\nfunc parseGoEmbed\(.*?\n}\n', src, re.S)
fn = m.group(0).replace('func parseGoEmbed(', 'func ref_parseGoEmbed(').replace('fileEmbed', 'ref_fileEmbed')
esrc = open(os.path.join(goroot, 'src/embed/embed.go')).read()
m2 = re.search(r'\nfunc split\(.*?\n}\n', esrc, re.S)
# the embed package's own split (its internal helpers replaced by their exported equivalents)
sp = m2.group(0).replace('func split(', 'func ref_embedSplit(').replace('stringslite.CutSuffix', 'strings.CutSuffix').replace('bytealg.LastIndexByteString', 'strings.LastIndexByte')
tmpl = open(os.path.join(os.path.dirname(os.path.abspath(__file__)), 'embed_h.go.tmpl')).read()
open(sys.argv[2], 'w').write(tmpl.replace('//REF_PARSEGOEMBED//', fn).replace('//REF_EMBEDSPLIT//', sp))
