package crosscompile

// The archive readers are environment stubs returning arbitrary entries
// (symx --stubs archive:<namelen>:<entries>); every file-system call made by the
// code under test is recorded as an event carrying its path.

func nd_nevents() int            { return 0 }
func nd_event_kind(i int) string { return "" }
func nd_event_str(i int) string  { return "" }
func nd_event_str2(i int) string { return "" }
func nd_event_int(i int) int     { return 0 }

const destDir = "/d/e"

// under: independent component walk — p (as the OS would resolve it lexically)
// stays inside dest.
func under(dest, p string) bool {
	// split both into components
	if len(p) == 0 || p[0] != '/' {
		return false // relative paths would resolve against the cwd
	}
	var stack [12]string
	n := 0
	start := 1
	for i := 1; i <= len(p); i++ {
		if i == len(p) || p[i] == '/' {
			c := p[start:i]
			start = i + 1
			switch c {
			case "", ".":
			case "..":
				if n > 0 {
					n--
				}
			default:
				if n < len(stack) {
					stack[n] = c
					n++
				}
			}
		}
	}
	// dest is "/d/e": components d, e.  The ancestors "/" and "/d" already
	// exist: "creating" them creates nothing (MkdirAll) or fails (Create), so
	// they do not count as outside.
	if n == 0 || (n == 1 && stack[0] == "d") {
		return true
	}
	return n >= 2 && stack[0] == "d" && stack[1] == "e"
}

// escapes: the entry name, resolved lexically below dest, ends up outside.
func escapes(name string) bool { return !under(destDir, destDir+"/"+name) }

// inside: the entry resolves to dest itself or below it.
func inside(name string) bool {
	p := destDir + "/" + name
	var stack [12]string
	n := 0
	start := 1
	for i := 1; i <= len(p); i++ {
		if i == len(p) || p[i] == '/' {
			c := p[start:i]
			start = i + 1
			switch c {
			case "", ".":
			case "..":
				if n > 0 {
					n--
				}
			default:
				if n < len(stack) {
					stack[n] = c
					n++
				}
			}
		}
	}
	return n >= 2 && stack[0] == "d" && stack[1] == "e"
}

func isCreate(k string) bool {
	return k == "MkdirAll" || k == "Mkdir" || k == "OpenFile" || k == "Create" || k == "WriteFile" || k == "Symlink" || k == "Link"
}

func checkEvents(err error, idConfined, idRejects, idAccepts string) {
	n := nd_nevents()
	anyEscape := false
	benign := true
	for i := 0; i < n; i++ {
		k := nd_event_kind(i)
		if isCreate(k) {
			nd_assert(under(destDir, nd_event_str(i)), idConfined)
		}
		if k == "Symlink" || k == "Link" {
			// a link whose target leaves the destination lets later entries
			// escape through it: the target, resolved from the link's own
			// directory (or absolute), must stay inside as well
			nw, old := nd_event_str(i), nd_event_str2(i)
			tgt := old
			if len(old) == 0 || old[0] != '/' {
				d := len(nw)
				for d > 0 && nw[d-1] != '/' {
					d--
				}
				tgt = nw[:d] + old
			}
			nd_assert(under(destDir, tgt), idConfined+".link")
		}
		if k == "tar.Next" || k == "zip.File" {
			nm := nd_event_str(i)
			if escapes(nm) {
				anyEscape = true
			}
			if !inside(nm) {
				benign = false // resolves to an ancestor of dest: accepting or rejecting are both fine
			}
			if tf := nd_event_int(i); tf != '0' && tf != '5' {
				benign = false // only regular files and directories must be recreated
			}
			for j := 0; j < len(nm); j++ {
				if nm[j] == 0 {
					benign = false // NUL in a file name: the OS rejects it, not our subject
				}
			}
		}
	}
	if anyEscape {
		nd_assert(err != nil, idRejects)
	} else if benign {
		nd_assert(err == nil, idAccepts)
	}
}

// H_targz: arbitrary tar entries.
func H_targz() {
	err := extractTarGz("/in/a.tar.gz", destDir)
	checkEvents(err, "C20.targz.confined", "C20.targz.rejects", "C20.targz.accepts")
	nd_reach("C20.targz")
}

// H_zip: arbitrary zip entries.
func H_zip() {
	err := extractZip("/in/a.zip", destDir)
	checkEvents(err, "C20.zip.confined", "C20.zip.rejects", "C20.zip.accepts")
	nd_reach("C20.zip")
}
