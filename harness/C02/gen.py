#!/usr/bin/env python3
"""Generates the C02 corpus: one Go function per (operator, type) and per
(conversion pair).  Writes <out>/go.mod, <out>/ops.go and <out>/meta.json."""
import json, os, sys

INTS = ['int8', 'int16', 'int32', 'int64', 'int', 'uint8', 'uint16', 'uint32', 'uint64', 'uint', 'uintptr']
INTS12 = INTS + ['byte'] if False else INTS + ['rune'] if False else INTS
FLOATS = ['float32', 'float64']
BIN = {'Add': '+', 'Sub': '-', 'Mul': '*', 'Div': '/', 'Rem': '%', 'And': '&', 'Or': '|', 'Xor': '^', 'AndNot': '&^'}
CMP = {'Eq': '==', 'Ne': '!=', 'Lt': '<', 'Le': '<=', 'Gt': '>', 'Ge': '>='}


def gen(tier):
    fns = []  # (name, params[(name,type)], result type, body, group)

    def add(name, params, res, expr, group):
        fns.append((name, params, res, expr, group))
    for t in INTS:
        for n, op in BIN.items():
            add('%s_%s' % (n, t), [('x', t), ('y', t)], t, 'x %s y' % op, 'arith' if n in ('Add', 'Sub', 'Mul', 'Div', 'Rem') else 'logic')
        for n, op in CMP.items():
            add('%s_%s' % (n, t), [('x', t), ('y', t)], 'bool', 'x %s y' % op, 'cmp')
        add('Neg_%s' % t, [('x', t)], t, '-x', 'unary')
        add('Not_%s' % t, [('x', t)], t, '^x', 'unary')
        for c in INTS:
            add('Shl_%s_%s' % (t, c), [('x', t), ('y', c)], t, 'x << y', 'shift')
            add('Shr_%s_%s' % (t, c), [('x', t), ('y', c)], t, 'x >> y', 'shift')
            add('Conv_%s_%s' % (t, c), [('x', t)], c, '%s(x)' % c, 'conv')
    # one constant operand: ssa/expr.go has shortcuts that drop guards when an operand is a
    # go/ssa constant (zero-divisor test, MinInt / -1 select, shift-count test)
    def bits(t):
        return {'int8': 8, 'int16': 16, 'int32': 32, 'int64': 64, 'int': 64, 'uint8': 8, 'uint16': 16, 'uint32': 32, 'uint64': 64, 'uint': 64, 'uintptr': 64}[t]

    def cname(v):
        return ('m%d' % -v) if v < 0 else str(v)
    for t in INTS:
        b = bits(t)
        signed = not t.startswith('u')
        if signed:
            lo, hi = -(1 << (b - 1)), (1 << (b - 1)) - 1
            left, right = [lo, -1, 0, 1, hi], [lo, -1, 1, hi]
        else:
            lo, hi = 0, (1 << b) - 1
            left, right = [0, 1, hi], [1, hi]
        for n, op in (('Div', '/'), ('Rem', '%')):
            for c in left:
                add('%sCL_%s_%s' % (n, t, cname(c)), [('y', t)], t, '%s(%d) %s y' % (t, c, op), 'arith-const')
            for c in right:
                add('%sCR_%s_%s' % (n, t, cname(c)), [('x', t)], t, 'x %s %s(%d)' % (op, t, c), 'arith-const')
        for c in ([lo, -1] if signed else [hi]):
            add('MulC_%s_%s' % (t, cname(c)), [('x', t)], t, 'x * %s(%d)' % (t, c), 'arith-const')
        for n, op in (('Shl', '<<'), ('Shr', '>>')):
            for k in sorted({0, 1, b - 1, b, b + 1, 64, 255}):
                add('%sCK_%s_%d' % (n, t, k), [('x', t)], t, 'x %s %d' % (op, k), 'shift-const')
            for c in ([lo, -1, 1] if signed else [1, hi]):
                for ct in ['uint8', 'int64', 'uint64']:
                    add('%sCX_%s_%s_%s' % (n, t, cname(c), ct), [('y', ct)], t, '%s(%d) %s y' % (t, c, op), 'shift-const')
    add('LNot_bool', [('x', 'bool')], 'bool', '!x', 'unary')
    for t in FLOATS:
        for n, op in {'Add': '+', 'Sub': '-', 'Mul': '*', 'Div': '/'}.items():
            add('F%s_%s' % (n, t), [('x', t), ('y', t)], t, 'x %s y' % op, 'float')
        for n, op in CMP.items():
            add('F%s_%s' % (n, t), [('x', t), ('y', t)], 'bool', 'x %s y' % op, 'floatcmp')
        add('FNeg_%s' % t, [('x', t)], t, '-x', 'float')
        for i in INTS:
            add('Conv_%s_%s' % (i, t), [('x', i)], t, '%s(x)' % t, 'convfloat')
            add('Conv_%s_%s' % (t, i), [('x', t)], i, '%s(x)' % i, 'convfloat')
        for u in FLOATS:
            add('Conv_%s_%s' % (t, u), [('x', t)], u, '%s(x)' % u, 'convfloat')
    for t in ['complex64', 'complex128']:
        for n, op in {'Add': '+', 'Sub': '-', 'Mul': '*', 'Div': '/'}.items():
            add('C%s_%s' % (n, t), [('x', t), ('y', t)], t, 'x %s y' % op, 'complex')
        add('CEq_%s' % t, [('x', t), ('y', t)], 'bool', 'x == y', 'complex')
        add('CNe_%s' % t, [('x', t), ('y', t)], 'bool', 'x != y', 'complex')
    return fns


def main():
    out, tier = sys.argv[1], sys.argv[2]
    fns = gen(tier)
    os.makedirs(out, exist_ok=True)
    open(os.path.join(out, 'go.mod'), 'w').write('module tvc02\n\ngo 1.24\n')
    src = ['package tvc02', '']
    meta = {}
    for name, params, res, expr, group in fns:
        ps = ', '.join('%s %s' % p for p in params)
        src.append('func %s(%s) %s { return %s }' % (name, ps, res, expr))
        meta[name] = {'params': params, 'result': res, 'expr': expr, 'group': group}
    open(os.path.join(out, 'ops.go'), 'w').write('\n'.join(src) + '\n')
    json.dump(meta, open(os.path.join(out, 'meta.json'), 'w'))
    print(len(fns))


main()
