#!/usr/bin/env python3
"""Generates the C02 complex-division harness: the reference toolchain's own
complex128div (GOROOT/src/runtime/complex.go) and the float helpers it uses
(GOROOT/src/runtime/float.go) are copied verbatim at check time, renamed ref_*."""
import re, subprocess, sys, os

goroot = subprocess.check_output(['go', 'env', 'GOROOT'], cwd=sys.argv[1]).decode().strip()
cs = open(os.path.join(goroot, 'src/runtime/complex.go')).read()
fs = open(os.path.join(goroot, 'src/runtime/float.go')).read()
out = []
for src, names in ((fs, ['isNaN', 'isFinite', 'isInf', 'abs', 'copysign', 'float64bits', 'float64frombits']), (cs, ['inf2one', 'complex128div'])):
    for n in names:
        m = re.search(r'\nfunc %s\(.*?\n}\n' % n, src, re.S)
        out.append(m.group(0))
ref = '\nvar ref_inf = ref_float64frombits(0x7FF0000000000000)\n' + ''.join(out)
for n in ['isNaN', 'isFinite', 'isInf', 'abs', 'copysign', 'float64bits', 'float64frombits', 'inf2one', 'complex128div']:
    ref = re.sub(r'\b%s\(' % n, 'ref_%s(' % n, ref)
ref = re.sub(r'\binf\b', 'ref_inf', ref)
tmpl = open(os.path.join(os.path.dirname(os.path.abspath(__file__)), 'cdiv_h.go.tmpl')).read()
open(sys.argv[2], 'w').write(tmpl.replace('//REF_COMPLEXDIV//', ref))
