#!/usr/bin/env python3
"""C03 corpus: one-statement functions bracketed by trace(1)/trace(2)."""
import json, os, sys

INTS = ['int8', 'int16', 'int32', 'int64', 'int', 'uint8', 'uint16', 'uint32', 'uint64', 'uint', 'uintptr']


def main():
    out, tier = sys.argv[1], sys.argv[2]
    fns = []

    def add(name, params, res, body, group):
        fns.append((name, params, res, body, group))
    for it in INTS:
        add('IdxSlice_%s' % it, [('s', '[]int32'), ('i', it)], 'int32', 'v := s[i]', 'index')
        add('IdxStr_%s' % it, [('s', 'string'), ('i', it)], 'byte', 'v := s[i]', 'index')
        add('IdxArr_%s' % it, [('a', '[4]int32'), ('i', it)], 'int32', 'v := a[i]', 'index')
        add('IdxPArr_%s' % it, [('a', '*[4]int32'), ('i', it)], 'int32', 'v := a[i]', 'index')
        add('SetSlice_%s' % it, [('s', '[]int32'), ('i', it), ('x', 'int32')], 'int32', 's[i] = x; v := s[i]', 'index')
        add('Make1_%s' % it, [('n', it)], 'int', 's := make([]int16, n); v := len(s)*16 + cap(s)', 'make')
        add('Make2_%s' % it, [('n', it), ('m', it)], 'int', 's := make([]int16, n, m); v := len(s)*16 + cap(s)', 'make')
        add('Slice2_%s' % it, [('s', '[]int32'), ('i', it), ('j', it)], 'int', 'r := s[i:j]; v := len(r)*16 + cap(r)', 'slice')
    forms = {
        'Slice_lo': ('s[i:]', 2), 'Slice_hi': ('s[:j]', 2), 'Slice_lohi': ('s[i:j]', 2), 'Slice_3': ('s[i:j:k]', 3), 'Slice_hi3': ('s[:j:k]', 3),
    }
    for n, (expr, _) in forms.items():
        add(n, [('s', '[]int32'), ('i', 'int'), ('j', 'int'), ('k', 'int')], 'int', 'r := %s; v := len(r)*16 + cap(r)' % expr, 'slice')
        add(n + '_first', [('s', '[]int32'), ('i', 'int'), ('j', 'int'), ('k', 'int')], 'int32',
            'r := %s; var v int32; if len(r) > 0 { v = r[0] }' % expr, 'slice')
        add('P' + n, [('s', '*[4]int32'), ('i', 'int'), ('j', 'int'), ('k', 'int')], 'int', 'r := %s; v := len(r)*16 + cap(r)' % expr, 'slice')
    for n, expr in {'Str_lo': 's[i:]', 'Str_hi': 's[:j]', 'Str_lohi': 's[i:j]'}.items():
        add(n, [('s', 'string'), ('i', 'int'), ('j', 'int')], 'int', 'r := %s; v := len(r)' % expr, 'slice')
        add(n + '_first', [('s', 'string'), ('i', 'int'), ('j', 'int')], 'byte', 'r := %s; var v byte; if len(r) > 0 { v = r[0] }' % expr, 'slice')
    add('S2A_ptr', [('s', '[]int32')], 'int32', 'p := (*[2]int32)(s); v := p[1]', 's2a')
    add('S2A_val', [('s', '[]int32')], 'int32', 'a := [2]int32(s); v := a[0] + a[1]', 's2a')
    add('S2A_ptr0', [('s', '[]int32')], 'int', 'p := (*[0]int32)(s); v := len(p)', 's2a')
    # array lengths at the maximum of the index type (a check that is elided
    # because 'the index cannot reach the length' must get the boundary right)
    for it, n in [('uint8', 255), ('uint8', 256), ('int8', 127), ('int8', 128), ('uint8', 254)]:
        add('IdxPArrMax_%s_%d' % (it, n), [('a', '*[%d]int8' % n), ('i', it)], 'int8', 'v := a[i]', 'index')
        add('SetPArrMax_%s_%d' % (it, n), [('a', '*[%d]int8' % n), ('i', it), ('x', 'int8')], 'int8', 'a[i] = x; v := a[i]', 'index')
    add('IdxArrMax_uint8_255', [('a', '[255]int8'), ('i', 'uint8')], 'int8', 'v := a[i]', 'index')
    if tier == 'thorough':
        for it, n in [('uint16', 65535), ('uint16', 65536), ('int16', 32767)]:
            add('IdxPArrMax_%s_%d' % (it, n), [('a', '*[%d]int8' % n), ('i', it)], 'int8', 'v := a[i]', 'index')
    # constant indices (bounds checks partly folded by the type checker / compiler)
    add('IdxSlice_const', [('s', '[]int32')], 'int32', 'v := s[2]', 'index')
    add('IdxArr_const', [('a', '[4]int32')], 'int32', 'v := a[3]', 'index')
    add('IdxStr_const', [('s', 'string')], 'byte', 'v := s[1]', 'index')
    # nil pointer dereference of small pointees (fault in the nil region)
    add('Deref_int', [('p', '*int')], 'int', 'v := *p', 'nilptr')
    add('Deref_field', [('p', '*struct{ a, b int64; c int32 }')], 'int32', 'v := p.c', 'nilptr')
    add('Store_field', [('p', '*struct{ a, b int64; c int32 }'), ('x', 'int32')], 'int32', 'p.c = x; v := p.c', 'nilptr')
    add('Deref_arr', [('p', '*[4]int32'), ('i', 'int')], 'int32', 'v := p[i&3]', 'nilptr')
    # twice in one function: the second fault behaves like the first
    add('Twice', [('s', '[]int32'), ('i', 'int'), ('j', 'int')], 'int32', 'v := s[i] + s[j]', 'index')
    # channel operations that must panic (and their neighbours that must not)
    add('ChanSendClosed', [('k', 'int')], 'int', 'ch := make(chan int, 2); ch <- k; close(ch); trace(3); ch <- k + 1; v := len(ch)', 'chan')
    add('ChanSendClosedUnbuf', [('k', 'int')], 'int', 'ch := make(chan int); close(ch); trace(3); ch <- k; v := k', 'chan')
    add('ChanCloseClosed', [('k', 'int')], 'int', 'ch := make(chan int, 1); close(ch); trace(3); close(ch); v := k', 'chan')
    add('ChanCloseNil', [('k', 'int')], 'int', 'var ch chan int; trace(3); close(ch); v := k', 'chan')
    add('ChanRecvClosed', [('k', 'int')], 'int', 'ch := make(chan int, 2); ch <- k; close(ch); a, ok1 := <-ch; b, ok2 := <-ch; v := a*4 + b*2; if ok1 { v += 100 }; if ok2 { v += 1000 }', 'chan')
    add('ChanBuffered', [('k', 'int')], 'int', 'ch := make(chan int, 3); ch <- k; ch <- k + 1; a := <-ch; ch <- k + 2; v := a + len(ch)*10 + cap(ch)*100 + <-ch + <-ch', 'chan')
    add('ChanSelectSendClosed', [('k', 'int')], 'int', 'ch := make(chan int, 1); close(ch); trace(3); v := 0; select { case ch <- k: v = 1; default: v = 2 }', 'chan')
    add('ChanSelectDefault', [('k', 'int')], 'int', 'ch := make(chan int, 1); ch <- k; v := 0; select { case ch <- k: v = 1; default: v = 2 }; select { case x := <-ch: v += x; default: v += 1000 }', 'chan')
    add('ChanTwice', [('k', 'int')], 'int', 'ch := make(chan int, 1); close(ch); v := 0; for i := 0; i < 2; i++ { func() { defer func() { if recover() != nil { v += 10 } }(); trace(4); ch <- k; trace(5) }() }', 'chan')
    # nil map write / read, failed and successful type assertions
    add('NilMapWrite', [('k', 'int')], 'int', 'var m map[int]int; trace(3); m[k] = 1; v := len(m)', 'nilmap')
    add('NilMapRead', [('k', 'int')], 'int', 'var m map[int]int; x, ok := m[k]; v := x + len(m); if ok { v += 100 }', 'nilmap')
    add('AssertFail', [('k', 'int')], 'int', 'var e interface{} = int32(k); trace(3); v := e.(int)', 'assert')
    add('AssertOk', [('k', 'int')], 'int', 'var e interface{} = k; v := e.(int)', 'assert')
    add('AssertNilIface', [('k', 'int')], 'int', 'var e interface{}; trace(3); v := e.(int) + k', 'assert')
    add('AssertIfaceFail', [('k', 'int')], 'int', 'var e interface{} = k; trace(3); s := e.(interface{ M() int }); v := s.M()', 'assert')
    add('AssertNilErrToAny', [('k', 'int')], 'int', 'var e error; trace(3); x := e.(interface{}); v := k; _ = x', 'assert')
    add('AssertNilErrToAnyOk', [('k', 'int')], 'int', 'var e error; x, ok := e.(interface{}); v := k; _ = x; if ok { v += 100 }', 'assert')
    add('AssertNilAnyToNamedEmpty', [('k', 'int')], 'int', 'type Empty interface{}; var e interface{ M() }; trace(3); x := e.(Empty); v := k; _ = x', 'assert')
    add('AssertErrToAny', [('k', 'int')], 'int', 'var e interface{ M() int } = mt(k); x := e.(interface{}); v := x.(mt).M()', 'assert')
    add('AssertCommaOk', [('k', 'int')], 'int', 'var e interface{} = int8(k); x, ok := e.(int); v := x; if ok { v += 100 }', 'assert')
    os.makedirs(out, exist_ok=True)
    open(os.path.join(out, 'go.mod'), 'w').write('module tvc03\n\ngo 1.24\n')
    src = ['package tvc03', '', 'import _ "unsafe"', '', '//go:linkname trace C.trace', 'func trace(x int)', '', 'type mt int', '', 'func (m mt) M() int { return int(m) + 1 }', '']
    meta = {}
    for name, params, res, body, group in fns:
        ps = ', '.join('%s %s' % p for p in params)
        src.append('func %s(%s) %s {\n\ttrace(1)\n\t%s\n\ttrace(2)\n\treturn v\n}\n' % (name, ps, res, body.replace('; ', '\n\t')))
        meta[name] = {'params': params, 'result': res, 'expr': body, 'group': group}
    open(os.path.join(out, 'ops.go'), 'w').write('\n'.join(src) + '\n')
    json.dump(meta, open(os.path.join(out, 'meta.json'), 'w'))
    print(len(fns))


main()
