package runtime

import "unsafe"

// H_strslice: StringSlice panics exactly when !(0 <= i <= j <= len) and
// otherwise yields the window [i,j) — for all 64-bit argument values.
func H_strslice() {
	ln := nd_int("len")
	i, j := nd_int("i"), nd_int("j")
	nd_assume(0 <= ln && ln <= 4)
	base := nd_alloc("base", 4)
	var s String
	panicked := nd_try(func() { s = StringSlice(String{base, ln}, i, j) })
	inRange := 0 <= i && i <= j && j <= ln
	nd_assert(panicked == !inRange, "C03.rt.strslice.panic")
	if !panicked {
		nd_assert(s.len == j-i, "C03.rt.strslice.len")
		nd_assert(s.len == 0 || s.data == unsafe.Add(base, i), "C03.rt.strslice.window")
	}
	nd_reach("C03.rt.strslice")
}

// H_assert_flags: the Assert* entry points panic exactly when their flag is set.
func H_assert_flags() {
	b := nd_bool("b")
	nd_assert(nd_try(func() { AssertIndexRange(b) }) == b, "C03.rt.assert.index")
	nd_assert(nd_try(func() { AssertDivideByZero(b) }) == b, "C03.rt.assert.divide")
	nd_assert(nd_try(func() { AssertNegativeShift(b) }) == b, "C03.rt.assert.shift")
	nd_assert(nd_try(func() { AssertNilDeref(b) }) == b, "C03.rt.assert.nilderef")
	nd_reach("C03.rt.assert")
}
