#!/usr/bin/env python3
"""C14 corpus: multi-package programs that stress link names: same-named
methods on different receivers, nested closures in methods, generic functions,
types and methods instantiated in several packages with local / aliased /
composite type arguments, same-named packages at different paths."""
import json, os, sys

HDR = '''import _ "unsafe"

//go:linkname trace C.trace
func trace(x int)

//go:linkname nd C.nd
func nd() int
'''

LIB = 'package lib\n\nimport "unsafe"\n\n' + '''
func Size[T any]() int {
	var z T
	return int(unsafe.Sizeof(z))
}

type Box[T any] struct {
	V T
	N int
}

func (b *Box[T]) Set(v T) { b.V = v; b.N++ }
func (b Box[T]) Count() int { return b.N + int(unsafe.Sizeof(b.V)) }

func Apply[T any](x T, f func(T) int) func() int {
	return func() int {
		g := func() int { return f(x) + 1 }
		return g() * 2
	}
}

func (b *Box[T]) Each(f func(T) int) int {
	g := func() int { return f(b.V) + b.N }
	return g()
}

func Counter[T any](x T, f func(T) int) func() int {
	n := 0
	return func() int {
		n++
		h := func() int { return f(x) * n }
		return h()
	}
}

func Pick[A, B any](a A, b B, first bool) int {
	if first {
		return int(unsafe.Sizeof(a))
	}
	return int(unsafe.Sizeof(b)) + 100
}
'''

PROGRAMS = {
    'generic': {
        'lib/lib.go': LIB,
        'a/model/m.go': 'package model\n\ntype T struct{ A int }\n\nfunc (t T) M() int { return t.A + 1 }\n',
        'b/model/m.go': 'package model\n\ntype T struct{ A, B, C int }\n\nfunc (t T) M() int { return t.A + t.B + 2 }\n',
        'p1/p1.go': 'package p1\n\nimport (\n\t"MOD/a/model"\n\t"MOD/lib"\n)\n\n' + '''
type Alias = model.T

func Use(k int) int {
	type local struct{ x, y int }
	var b lib.Box[local]
	b.Set(local{k, k})
	r := lib.Size[struct{ V model.T }]()*1000 + lib.Size[Alias]()*100 + b.Count()
	r += lib.Size[func(model.T) int]() + lib.Size[interface{ M() int }]() + lib.Size[[2]model.T]()
	f := lib.Apply(model.T{A: k}, func(t model.T) int { return t.M() })
	return r + f() + lib.Pick(model.T{}, int8(0), k > 3)
}

func Shared(k int) int {
	var b lib.Box[int]
	b.Set(k)
	c := lib.Counter(k, func(v int) int { return v + 1 })
	c()
	return b.Each(func(v int) int { return v * 3 }) + c() + lib.Size[int]()
}

// two function-local types of the same name inside composite type arguments
func LocalA() int {
	type local struct{ x int8 }
	return lib.Size[struct{ V local }]()*100 + lib.Size[[2]local]()
}

func LocalB() int {
	type local struct{ x [4]int64 }
	return lib.Size[struct{ V local }]()*100 + lib.Size[[2]local]()
}

func Other(k int) int {
	type local struct{ x int8 }
	var b lib.Box[local]
	b.Set(local{int8(k)})
	return b.Count() + lib.Size[local]() + lib.Size[*local]() + lib.Size[[]local]()
}
''',
        'p2/p2.go': 'package p2\n\nimport (\n\t"MOD/b/model"\n\t"MOD/lib"\n)\n\n' + '''
type Alias = model.T

func Use(k int) int {
	type local struct{ x, y, z, w int }
	var b lib.Box[local]
	b.Set(local{k, k, k, k})
	r := lib.Size[struct{ V model.T }]()*1000 + lib.Size[Alias]()*100 + b.Count()
	r += lib.Size[func(model.T) int]() + lib.Size[interface{ M() int }]() + lib.Size[[2]model.T]()
	f := lib.Apply(model.T{A: k}, func(t model.T) int { return t.M() })
	return r + f() + lib.Pick(int8(0), model.T{}, k > 3)
}

func Shared(k int) int {
	var b lib.Box[int]
	b.Set(k + 1)
	c := lib.Counter(k, func(v int) int { return v + 2 })
	return b.Each(func(v int) int { return v * 5 }) + c() + lib.Size[int]()
}

func Other(k int) int {
	type local struct{ x int64 }
	var b lib.Box[local]
	b.Set(local{int64(k)})
	return b.Count() + lib.Size[local]() + lib.Size[*local]() + lib.Size[[]local]()
}
''',
        # a package-level initialiser that refers to a function declared further down (go/types
        # creates that function's scope first), next to same-named local types in several functions
        'p3/p3.go': 'package p3\n\nimport "MOD/lib"\n\n' + '''
var cfg = load(3)

func First() int {
	type local struct{ x int8 }
	return lib.Size[local]()*100 + lib.Size[[2]local]()
}

func Second() int {
	type local struct{ x [3]int64 }
	return lib.Size[local]()*100 + lib.Size[[2]local]()
}

var late = tail(2)

func load(k int) int {
	type local struct{ x [5]int64 }
	return lib.Size[local]() + k
}

func Third() int {
	type local struct{ x [7]int16 }
	return lib.Size[local]()*100 + lib.Size[[]local]()
}

func tail(k int) int {
	type local struct{ x [9]int32 }
	return lib.Size[local]() + k
}

func Cfg() int { return cfg*1000 + late }
''',
        'main.go': 'package MODNAME\n\nimport (\n\t"MOD/lib"\n\t"MOD/p1"\n\t"MOD/p2"\n\t"MOD/p3"\n)\n\n' + HDR + '''
type local struct{ q [5]int }

func Run(k int) int {
	trace(p1.Use(k))
	trace(p2.Use(k))
	trace(p1.Other(k))
	trace(p2.Other(k))
	trace(p1.LocalA())
	trace(p1.LocalB())
	trace(p1.Shared(k))
	trace(p2.Shared(k))
	trace(p3.First())
	trace(p3.Second())
	trace(p3.Third())
	trace(p3.Cfg())
	trace(lib.Size[local]())
	{
		type local struct{ q [7]int }
		trace(lib.Size[local]())
	}
	return lib.Size[struct{ V int }]() + lib.Size[int]()
}
''',
    },
    'methods': {
        'a/a.go': 'package a\n\n' + '''
type T struct{ X int }
type U struct{ X int }

func (t T) Get() int   { return t.X + 1 }
func (t *T) Inc()      { t.X += 10 }
func (u U) Get() int   { return u.X + 2 }
func (u *U) Inc()      { u.X += 20 }
func Get(t T) int      { return t.X + 3 }
func (t T) Closure(k int) func() func() int {
	return func() func() int {
		return func() int { return t.X*k + 5 }
	}
}
func (u U) Closure(k int) func() func() int {
	return func() func() int {
		return func() int { return u.X*k + 7 }
	}
}
func Closure(k int) func() func() int {
	return func() func() int {
		return func() int { return k + 9 }
	}
}

var V = func() int { return 11 }
var W = func() int { return func() int { return 13 }() }
''',
        'b/a.go': 'package a\n\n' + '''
type T struct{ X int }

func (t T) Get() int { return t.X + 100 }
func (t *T) Inc()    { t.X += 1000 }
func Get(t T) int    { return t.X + 300 }
func (t T) Closure(k int) func() func() int {
	return func() func() int {
		return func() int { return t.X*k + 500 }
	}
}
''',
        'main.go': 'package MODNAME\n\nimport (\n\ta1 "MOD/a"\n\ta2 "MOD/b"\n)\n\n' + HDR + '''
type T struct{ X int }

func (t T) Get() int { return t.X - 1 }
func (t *T) Inc()    { t.X -= 10 }
func Get(t T) int    { return t.X - 3 }

type getter interface{ Get() int }

// one method reached through four receiver types (value, pointer, promoted
// through an embedding struct by value and by pointer)
type A struct{ x, y int }

func (a A) f() int { return a.x*10 + a.y }

type S struct {
	pad [3]int
	A
}

func exprs(k int) int {
	a := A{k, 1}
	s := S{[3]int{7, 8, 9}, A{k + 1, 2}}
	f1, f2, f3, f4 := A.f, (*A).f, S.f, (*S).f
	// the same method name on an imported and on a local type of the same name
	g1, g2, g3 := a2.T.Get, T.Get, a1.T.Get
	return f1(a) + f2(&a)*3 + f3(s)*5 + f4(&s)*7 + g1(a2.T{X: k})*11 + g2(T{X: k})*13 + g3(a1.T{X: k})*17
}

func Run(k int) int {
	trace(exprs(k))
	t1, u1, t2, t3 := a1.T{X: k}, a1.U{X: k}, a2.T{X: k}, T{X: k}
	t1.Inc()
	u1.Inc()
	t2.Inc()
	t3.Inc()
	trace(t1.Get())
	trace(u1.Get())
	trace(t2.Get())
	trace(t3.Get())
	trace(a1.Get(t1) + a2.Get(t2) + Get(t3))
	trace(t1.Closure(2)()())
	trace(u1.Closure(3)()())
	trace(t2.Closure(4)()())
	trace(a1.Closure(5)()())
	trace(a1.V() + a1.W())
	gs := [4]getter{t1, u1, t2, t3}
	s := 0
	for _, g := range gs {
		s = s*3 + g.Get()
	}
	f1, f2, f3 := t1.Get, (*a1.U).Inc, a2.T.Get
	f2(&u1)
	return s + f1() + f3(t2) + u1.X
}
''',
    },
    'descr': {
        # type descriptors are link-level entities too: one name per type
        'lib/lib.go': 'package lib\n\ntype T struct{ A int }\n\nfunc (t T) Hello() int { return t.A + 1 }\n\ntype Box[X any] struct{ V X }\n\nfunc (b Box[X]) Get() X { return b.V }\n',
        'p1/p1.go': 'package p1\n\nimport "MOD/lib"\n\n' + '''
type hidden struct{ a int }

func V(k int) any  { return struct{ lib.T }{lib.T{A: k}} }
func W(k int) any  { return struct{ a int }{k} }
func X(k int) any  { return hidden{k} }
func Y(k int) any  { return lib.Box[hidden]{hidden{k}} }
func Z(k int) any  { return lib.Box[int]{k} }
func F(k int) any  { return func(...int) {} }
''',
        'p2/p2.go': 'package p2\n\nimport "MOD/lib"\n\n' + '''
type hidden struct{ a int }

func V(k int) any  { return struct{ T lib.T }{lib.T{A: k}} }
func W(k int) any  { return struct{ a int }{k} }
func X(k int) any  { return hidden{k} }
func Y(k int) any  { return lib.Box[hidden]{hidden{k}} }
func Z(k int) any  { return lib.Box[int]{k} }
func F(k int) any  { return func([]int) {} }
''',
        'main.go': 'package MODNAME\n\nimport (\n\t"MOD/p1"\n\t"MOD/p2"\n)\n\n' + HDR + '''
func b2i(b bool) int {
	if b {
		return 1
	}
	return 0
}

func hello(x any) int {
	if h, ok := x.(interface{ Hello() int }); ok {
		return h.Hello()
	}
	return -1
}

func isv(x any) int {
	switch x.(type) {
	case func(...int):
		return 1
	case func([]int):
		return 2
	}
	return 0
}

func Run(k int) int {
	trace(b2i(p1.V(k) == p2.V(k)) + 2*b2i(p1.W(k) == p2.W(k)) + 4*b2i(p1.X(k) == p2.X(k)) + 8*b2i(p1.Y(k) == p2.Y(k)) + 16*b2i(p1.Z(k) == p2.Z(k)))
	trace(hello(p1.V(k)))
	trace(hello(p2.V(k)))
	trace(isv(p1.F(k))*10 + isv(p2.F(k)))
	return k
}
''',
    },
}


def main():
    out, tier = sys.argv[1], sys.argv[2]
    os.makedirs(out, exist_ok=True)
    progs = {}
    for name, files in PROGRAMS.items():
        mod = 'tvc14' + name
        d = os.path.join(out, name)
        pkgs = set()
        for rel, src in files.items():
            p = os.path.join(d, rel)
            os.makedirs(os.path.dirname(p), exist_ok=True)
            open(p, 'w').write(src.replace('MODNAME', mod).replace('MOD', mod))
            if os.path.dirname(rel):
                pkgs.add(mod + '/' + os.path.dirname(rel))
        open(os.path.join(d, 'go.mod'), 'w').write('module %s\n\ngo 1.24\n' % mod)
        progs[name] = {'dir': d, 'pkgpath': mod, 'pkgs': sorted(pkgs), 'funcs': {'Run': {'params': [('k', 'int')], 'result': 'int'}}}
    json.dump(progs, open(os.path.join(out, 'programs.json'), 'w'))
    print(len(progs))


main()
