package runtime

import "unsafe"

const strN = 3 // string length bound (bytes)

func sb(p unsafe.Pointer, i int) byte { return *(*byte)(unsafe.Add(p, i)) }

// mkStr: an arbitrary string of 0..strN bytes in its own buffer
func mkStr(name string) String {
	base := nd_alloc(name, strN)
	n := nd_int(name + ".len")
	nd_assume(0 <= n && n <= strN)
	return String{base, n}
}

// window: an arbitrary substring base[i:i+n] of one shared buffer
func window(base unsafe.Pointer, name string) String {
	i := nd_int(name + ".off")
	n := nd_int(name + ".len")
	nd_assume(0 <= i && i <= strN && 0 <= n && n <= strN && i+n <= strN)
	return String{unsafe.Add(base, i), n}
}

func refEqual(a, b String) bool {
	if a.len != b.len {
		return false
	}
	eq := true
	for i := 0; i < strN; i++ {
		if i < a.len && sb(a.data, i) != sb(b.data, i) {
			eq = false
		}
	}
	return eq
}

// refLess: lexicographic order on bytes, the shorter string first on a tie
func refLess(a, b String) bool {
	for i := 0; i < strN; i++ {
		if i >= a.len || i >= b.len {
			break
		}
		x, y := sb(a.data, i), sb(b.data, i)
		if x != y {
			return x < y
		}
	}
	return a.len < b.len
}

func H_str_equal() {
	a, b := mkStr("a"), mkStr("b")
	nd_assert(StringEqual(a, b) == refEqual(a, b), "C05.streq")
	nd_reach("C05.streq")
}

// both operands are windows of ONE buffer: same base pointer with different
// lengths, overlapping and adjacent windows, empty windows at any offset
func H_str_equal_alias() {
	base := nd_alloc("s", strN)
	a, b := window(base, "a"), window(base, "b")
	nd_assert(StringEqual(a, b) == refEqual(a, b), "C05.streq.alias")
	nd_assert(StringLess(a, b) == refLess(a, b), "C05.strless.alias")
	nd_reach("C05.streq.alias")
}

func H_str_less() {
	a, b := mkStr("a"), mkStr("b")
	lt := StringLess(a, b)
	nd_assert(lt == refLess(a, b), "C05.strless.lex")
	nd_assert(!(lt && StringLess(b, a)), "C05.strless.antisym")
	nd_assert(lt || StringLess(b, a) || StringEqual(a, b), "C05.strless.eqcons")
	nd_reach("C05.strless")
}

func H_str_cat() {
	a, b := mkStr("a"), mkStr("b")
	r := StringCat(a, b)
	nd_assert(r.len == a.len+b.len, "C05.strcat.len")
	var diff byte
	for i := 0; i < strN; i++ {
		if i < a.len {
			diff |= sb(r.data, i) ^ sb(a.data, i)
		}
		if i < b.len {
			diff |= sb(r.data, a.len+i) ^ sb(b.data, i)
		}
	}
	nd_assert(diff == 0, "C05.strcat.bytes")
	nd_reach("C05.strcat")
}

// string <-> []byte: same bytes, fresh storage in both directions
func H_str_bytes() {
	s := mkStr("s")
	b := StringToBytes(s)
	nd_assert(len(b) == s.len, "C05.bytes.len")
	var diff byte
	for i := 0; i < strN; i++ {
		if i < s.len {
			diff |= b[i] ^ sb(s.data, i)
		}
	}
	nd_assert(diff == 0, "C05.bytes.tobytes")
	if s.len > 0 {
		nd_assert(unsafe.Pointer(&b[0]) != s.data, "C05.bytes.fresh")
	}
	back := StringFromBytes(*(*Slice)(unsafe.Pointer(&b)))
	nd_assert(refEqual(back, s), "C05.bytes.roundtrip")
	if s.len > 0 {
		nd_assert(back.data != unsafe.Pointer(&b[0]), "C05.bytes.fromfresh")
	}
	nd_reach("C05.bytes")
}

// for i, r := range s: indices are the offsets decoderune reports, the loop
// covers the whole string and ends
func H_str_iter() {
	s := mkStr("s")
	gs := *(*string)(unsafe.Pointer(&s))
	it := NewStringIter(gs)
	pos := 0
	for n := 0; n <= strN; n++ {
		ok, k, v := StringIterNext(it)
		if !ok {
			nd_assert(pos == s.len, "C05.iter.covers")
			break
		}
		nd_assert(k == pos, "C05.iter.index")
		if c := sb(s.data, pos); c < 0x80 {
			nd_assert(v == rune(c), "C05.iter.ascii")
			pos++
		} else {
			r, np := decoderune(gs, pos)
			nd_assert(v == r && np > pos, "C05.iter.rune")
			pos = np
		}
	}
	nd_assert(pos <= s.len, "C05.iter.bound")
	nd_reach("C05.iter")
}

func goStr(s String) string { return *(*string)(unsafe.Pointer(&s)) }

// []rune(s): the same runes, in order, as Go's conversion yields - for every byte
// string of <= 4 bytes (invalid, truncated, overlong and surrogate encodings each
// give one U+FFFD per offending byte); len == cap is not required by the spec
func H_str_torunes() {
	gs := nd_string("s", 4)
	rs, panicked := tryRunes(func() []rune { return StringToRunes(gs) })
	nd_assert(!panicked, "C05.utf8.torunes.nopanic")
	want := []rune(gs)
	nd_assert(len(rs) == len(want), "C05.utf8.torunes.len")
	for i := 0; i < len(want) && i < len(rs); i++ {
		nd_assert(rs[i] == want[i], "C05.utf8.torunes.rune")
	}
	nd_reach("C05.utf8.torunes")
}

// string(rs) for every pair of rune values (invalid runes become U+FFFD)
func H_str_fromrunes() {
	n := nd_int("n")
	nd_assume(0 <= n && n <= 2)
	buf := [2]rune{nd_rune("r0"), nd_rune("r1")}
	rs := buf[:n]
	got := goStr(StringFromRunes(rs))
	nd_assert(got == string(rs), "C05.utf8.fromrunes")
	nd_reach("C05.utf8.fromrunes")
}

// string(i) for every 64-bit integer value
func H_str_fromint() {
	x := nd_int64("x")
	got := goStr(StringFromInt64(x))
	want := "�"
	if x >= 0 && x <= 0x10FFFF {
		want = string(rune(x))
	}
	nd_assert(got == want, "C05.utf8.fromint")
	u := nd_uint64("u")
	gotu := goStr(StringFromUint64(u))
	wantu := "�"
	if u <= 0x10FFFF {
		wantu = string(rune(u))
	}
	nd_assert(gotu == wantu, "C05.utf8.fromuint")
	nd_reach("C05.utf8.fromint")
}

func tryRunes(f func() []rune) (rs []rune, panicked bool) {
	defer func() {
		if e := recover(); e != nil {
			panicked = true
		}
	}()
	rs = f()
	return
}
