package runtime

import "unsafe"

func zb(p unsafe.Pointer, i int) byte { return *(*byte)(unsafe.Add(p, i)) }

// mkSlice: an arbitrary valid slice header (0 <= len <= cap <= capN) over a
// fresh backing store of capN elements of et bytes with symbolic contents.
func mkSlice(name string, et, capN int) Slice {
	base := nd_alloc(name, capN*et)
	ln := nd_int(name + ".len")
	cp := nd_int(name + ".cap")
	nd_assume(0 <= ln && ln <= cp && cp <= capN)
	return Slice{base, ln, cp}
}

const sliceN = 4 // backing store bound (elements)
const numN = 3   // appended elements bound

// appendStep: one SliceAppend from an arbitrary valid pre-state.
func appendStep(et, sliceN, numN int) {
	s := mkSlice("s", et, sliceN)
	num := nd_int("num")
	nd_assume(0 <= num && num <= numN)
	data := nd_alloc("d", numN*et)
	var old [4 * 24]byte
	for i := 0; i < s.len*et; i++ {
		old[i] = zb(s.data, i)
	}
	r := SliceAppend(s, data, num, et)
	nd_assert(r.len == s.len+num, "C05.append.len")
	nd_assert(r.cap >= r.len, "C05.append.cap")
	if et != 0 {
		nd_assert((r.data == s.data) == (s.len+num <= s.cap), "C05.append.share")
	}
	var diff byte
	for i := 0; i < s.len*et; i++ {
		diff |= zb(r.data, i) ^ old[i]
	}
	nd_assert(diff == 0, "C05.append.prefix")
	diff = 0
	for i := 0; i < num*et; i++ {
		diff |= zb(r.data, s.len*et+i) ^ zb(data, i)
	}
	nd_assert(diff == 0, "C05.append.suffix")
	nd_reach("C05.append")
}

func H_append_et0()  { appendStep(0, 4, 3) }
func H_append_et1()  { appendStep(1, 4, 3) }
func H_append_et2()  { appendStep(2, 4, 3) }
func H_append_et3()  { appendStep(3, 3, 2) }
func H_append_et8()  { appendStep(8, 3, 2) }
func H_append_et24() { appendStep(24, 2, 1) }

// appendAlias: append(s[:i], s[j:]...) — source inside the destination's
// backing array.  Go semantics: result is old[0:i] ++ old[j:len].
func appendAlias(et int) {
	s := mkSlice("s", et, sliceN)
	i := nd_int("i")
	j := nd_int("j")
	nd_assume(0 <= i && i <= j && j <= s.len)
	var old [sliceN * 24]byte
	for k := 0; k < s.len*et; k++ {
		old[k] = zb(s.data, k)
	}
	dst := Slice{s.data, i, s.cap}
	r := SliceAppend(dst, unsafe.Add(s.data, j*et), s.len-j, et)
	nd_assert(r.len == i+s.len-j, "C05.append.alias.len")
	nd_assert(r.data == s.data, "C05.append.alias.share")
	var diff byte
	for k := 0; k < i*et; k++ {
		diff |= zb(r.data, k) ^ old[k]
	}
	for k := 0; k < (s.len-j)*et; k++ {
		diff |= zb(r.data, i*et+k) ^ old[j*et+k]
	}
	nd_assert(diff == 0, "C05.append.alias.content")
	nd_reach("C05.append.alias")
}

func H_append_alias_et1() { appendAlias(1) }
func H_append_alias_et8() { appendAlias(8) }

// H_nextslicecap: result >= newLen for every (newLen, oldCap) with
// 0 <= oldCap < newLen (the only way GrowSlice calls it); loop bound derived
// from the 1.25x growth: at most 4 iterations until newcap >= newLen when
// newLen <= 2*oldCap (checked by the unwinding bound of the run).
func H_nextslicecap() {
	newLen := nd_int("newLen")
	oldCap := nd_int("oldCap")
	nd_assume(oldCap >= 0 && newLen > oldCap)
	c := nextslicecap(newLen, oldCap)
	nd_assert(c >= newLen, "C05.nextcap.ge")
	nd_reach("C05.nextcap")
}

// copyStep: SliceCopy from an arbitrary pointer — possibly overlapping the
// destination in either direction — behaves like memmove of min(len,num).
func copyStep(et int) {
	s := mkSlice("s", et, sliceN)
	off := nd_int("off") // source element offset inside the same backing array
	num := nd_int("num")
	nd_assume(0 <= off && off <= sliceN && 0 <= num && num <= sliceN && off+num <= sliceN)
	var old [sliceN * 24]byte
	for k := 0; k < sliceN*et; k++ {
		old[k] = zb(s.data, k)
	}
	n := SliceCopy(s, unsafe.Add(s.data, off*et), num, et)
	want := s.len
	if num < want {
		want = num
	}
	nd_assert(n == want, "C05.copy.count")
	var diff byte
	for k := 0; k < n*et; k++ {
		diff |= zb(s.data, k) ^ old[off*et+k]
	}
	nd_assert(diff == 0, "C05.copy.content")
	diff = 0
	for k := n * et; k < sliceN*et; k++ {
		if k >= (off+num)*et || k < off*et || true {
			// bytes beyond the copied prefix are untouched
			diff |= zb(s.data, k) ^ old[k]
		}
	}
	nd_assert(diff == 0, "C05.copy.rest")
	nd_reach("C05.copy")
}

func H_copy_et1() { copyStep(1) }
func H_copy_et3() { copyStep(3) }
func H_copy_et8() { copyStep(8) }

// H_slice3: NewSlice3 panics exactly when !(0<=i<=j<=k<=cap) and otherwise
// yields the Go-specified window, for all 64-bit argument values.
func slice3(et int) {
	cp := nd_int("cap")
	i, j, k := nd_int("i"), nd_int("j"), nd_int("k")
	nd_assume(0 <= cp && cp <= sliceN)
	base := nd_alloc("base", sliceN*et)
	var s Slice
	panicked := nd_try(func() { s = NewSlice3(base, et, cp, i, j, k) })
	inRange := 0 <= i && i <= j && j <= k && k <= cp
	nd_assert(panicked == !inRange, "C05.slice3.panic")
	if !panicked {
		nd_assert(s.len == j-i && s.cap == k-i, "C05.slice3.lencap")
		nd_assert(s.cap == 0 || s.data == unsafe.Add(base, i*et), "C05.slice3.window")
	}
	nd_reach("C05.slice3")
}

func H_slice3_et1()  { slice3(1) }
func H_slice3_et24() { slice3(24) }

// H_makeslice: MakeSlice panics exactly for len<0, len>cap, or a size that
// overflows / exceeds maxAlloc; otherwise len/cap are exact and memory zero.
func makeslice(et int) {
	ln, cp := nd_int("len"), nd_int("cap")
	var s Slice
	panicked := nd_try(func() { s = MakeSlice(ln, cp, et) })
	bad := ln < 0 || ln > cp
	if !bad && et != 0 {
		// size overflow: cap*et must fit below maxAlloc
		bad = uint64(cp) > uint64(maxAlloc)/uint64(et)
	}
	nd_assert(panicked == bad, "C05.make.panic")
	if !panicked {
		nd_assert(s.len == ln && s.cap == cp, "C05.make.lencap")
		nd_assume(cp <= 4)
		var acc byte
		for k := 0; k < cp*et; k++ {
			acc |= zb(s.data, k)
		}
		nd_assert(acc == 0, "C05.make.zeroed")
	}
	nd_reach("C05.make")
}

func H_makeslice_et1() { makeslice(1) }
func H_makeslice_et8() { makeslice(8) }
func H_makeslice_et0() { makeslice(0) }
