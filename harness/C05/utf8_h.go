package runtime

import "unicode/utf8"

func utf8_decode_at(s string, k int) {
	// documented precondition of decoderune: the rune at k is not ASCII
	nd_assume(s[k] >= utf8.RuneSelf)
	r, pos := decoderune(s, k)
	wr, wn := utf8.DecodeRuneInString(s[k:])
	nd_assert(r == wr, "C05.utf8.decode.rune")
	nd_assert(pos == k+wn, "C05.utf8.decode.width")
	nd_reach("C05.utf8.decode")
}

// H_utf8_decode: decoderune(s,k) agrees with utf8.DecodeRuneInString(s[k:])
// for every byte string of length <= 5 and every offset k < len(s).
func H_utf8_decode() {
	s := nd_string("s", 5)
	k := nd_int("k")
	nd_assume(k >= 0 && k < len(s))
	switch k {
	case 0:
		utf8_decode_at(s, 0)
	case 1:
		utf8_decode_at(s, 1)
	case 2:
		utf8_decode_at(s, 2)
	case 3:
		utf8_decode_at(s, 3)
	default:
		utf8_decode_at(s, 4)
	}
}

// H_utf8_encode: encoderune agrees with utf8.EncodeRune for all 2^32 runes.
func H_utf8_encode() {
	r := nd_rune("r")
	var a, b [4]byte
	n := encoderune(a[:], r)
	wn := utf8.EncodeRune(b[:], r)
	nd_assert(n == wn, "C05.utf8.encode.count")
	nd_assert(a == b, "C05.utf8.encode.bytes")
	nd_reach("C05.utf8.encode")
}
