package runtime

import "unsafe"

// nd_go / nd_join: symx intercepts them (symbolic scheduler); in the native
// replay they are the stand-in scheduler's entry points.

//go:linkname nd_go github.com/goplus/llgo/runtime/internal/zzstand/psync.Go
func nd_go(f func())

//go:linkname nd_join github.com/goplus/llgo/runtime/internal/zzstand/psync.Join
func nd_join() bool

func sendv(ch *Chan, v int64) bool  { return ChanSend(ch, unsafe.Pointer(&v), 8) }
func recvv(ch *Chan) (int64, bool) { var v int64; ok := ChanRecv(ch, unsafe.Pointer(&v), 8); return v, ok }

// one sender, one receiver: the value sent is the value received, nobody stays blocked
func chan1s1r(capacity int) {
	ch := NewChan(8, capacity)
	v := nd_int64("v")
	var got int64
	var ok bool
	nd_go(func() { sendv(ch, v) })
	nd_go(func() { got, ok = recvv(ch) })
	dl := nd_join()
	nd_assert(!dl, "C10.bmc.1s1r.deadlock")
	nd_assert(ok && got == v, "C10.bmc.1s1r.value")
	nd_reach("C10.1s1r")
}

func H_chan_1s1r_cap0() { chan1s1r(0) }
func H_chan_1s1r_cap1() { chan1s1r(1) }

// sender then close, receiver with comma-ok twice: the value is delivered with
// ok=true exactly once, then (0,false)
func chanSendClose(capacity int) {
	ch := NewChan(8, capacity)
	v := nd_int64("v")
	nd_assume(v != 0)
	var g1, g2 int64
	var ok1, ok2 bool
	nd_go(func() { sendv(ch, v); ChanClose(ch) })
	nd_go(func() { g1, ok1 = recvv(ch); g2, ok2 = recvv(ch) })
	dl := nd_join()
	nd_assert(!dl, "C10.bmc.sendclose.deadlock")
	nd_assert(ok1 && g1 == v, "C10.bmc.sendclose.okflag")
	nd_assert(!ok2 && g2 == 0, "C10.bmc.sendclose.drained")
	nd_reach("C10.sendclose")
}

func H_chan_sendclose_cap0() { chanSendClose(0) }
func H_chan_sendclose_cap1() { chanSendClose(1) }

// two senders, one receiver receiving twice: both values arrive exactly once
func chan2s1r(capacity int) {
	ch := NewChan(8, capacity)
	a, b := nd_int64("a"), nd_int64("b")
	nd_assume(a != b)
	var g1, g2 int64
	var ok1, ok2 bool
	nd_go(func() { sendv(ch, a) })
	nd_go(func() { sendv(ch, b) })
	nd_go(func() { g1, ok1 = recvv(ch); g2, ok2 = recvv(ch) })
	dl := nd_join()
	nd_assert(!dl, "C10.bmc.2s1r.deadlock")
	nd_assert(ok1 && ok2, "C10.bmc.2s1r.ok")
	nd_assert((g1 == a && g2 == b) || (g1 == b && g2 == a), "C10.bmc.2s1r.once")
	nd_reach("C10.2s1r")
}

func H_chan_2s1r_cap0() { chan2s1r(0) }
func H_chan_2s1r_cap1() { chan2s1r(1) }

// one sender sending twice, two receivers: FIFO per channel and exactly-once
func chan1s2r(capacity int) {
	ch := NewChan(8, capacity)
	a, b := nd_int64("a"), nd_int64("b")
	nd_assume(a != b)
	var g1, g2 int64
	var ok1, ok2 bool
	nd_go(func() { sendv(ch, a); sendv(ch, b) })
	nd_go(func() { g1, ok1 = recvv(ch) })
	nd_go(func() { g2, ok2 = recvv(ch) })
	dl := nd_join()
	nd_assert(!dl, "C10.bmc.1s2r.deadlock")
	nd_assert(ok1 && ok2, "C10.bmc.1s2r.ok")
	nd_assert((g1 == a && g2 == b) || (g1 == b && g2 == a), "C10.bmc.1s2r.once")
	nd_reach("C10.1s2r")
}

func H_chan_1s2r_cap0() { chan1s2r(0) }
func H_chan_1s2r_cap1() { chan1s2r(1) }

// close wakes a blocked receiver
func H_chan_close_wakes() {
	ch := NewChan(8, 0)
	var ok bool
	var g int64
	nd_go(func() { g, ok = recvv(ch) })
	nd_go(func() { ChanClose(ch) })
	dl := nd_join()
	nd_assert(!dl, "C10.bmc.closewakes.deadlock")
	nd_assert(!ok && g == 0, "C10.bmc.closewakes.zero")
	nd_reach("C10.closewakes")
}

// buffered FIFO with one thread: sequence preserved, capacity respected
func H_chan_fifo_cap2() {
	ch := NewChan(8, 2)
	a, b := nd_int64("a"), nd_int64("b")
	nd_assert(sendv(ch, a) && sendv(ch, b), "C10.fifo.send")
	nd_assert(ChanLen(ch) == 2, "C10.fifo.len")
	c := nd_int64("c")
	nd_assert(!ChanTrySend(ch, unsafe.Pointer(&c), 8), "C10.fifo.cap")
	g1, ok1 := recvv(ch)
	g2, ok2 := recvv(ch)
	nd_assert(ok1 && ok2 && g1 == a && g2 == b, "C10.fifo.order")
	nd_reach("C10.fifo")
}

// ---- select -------------------------------------------------------------------

// the buffered ring at an arbitrary head position: after 0..3 send/receive pairs
// have rotated the ring, cap values go in through ChanSend or ChanTrySend (the
// select path) in any mix and come out in order; a further non-blocking send fails
func H_chan_ring() {
	capN := nd_int("cap")
	nd_assume(1 <= capN && capN <= 3)
	ch := NewChan(8, capN)
	rot := nd_int("rot")
	nd_assume(0 <= rot && rot <= 3)
	for i := 0; i < 3; i++ {
		if i < rot {
			sendv(ch, int64(100+i))
			g, ok := recvv(ch)
			nd_assert(ok && g == int64(100+i), "C10.ring.rotate")
		}
	}
	vals := [3]int64{nd_int64("v0"), nd_int64("v1"), nd_int64("v2")}
	try := [3]bool{nd_bool("try0"), nd_bool("try1"), nd_bool("try2")}
	for i := 0; i < 3; i++ {
		if i < capN {
			if try[i] {
				nd_assert(ChanTrySend(ch, unsafe.Pointer(&vals[i]), 8), "C10.ring.trysend")
			} else {
				sendv(ch, vals[i])
			}
		}
	}
	nd_assert(ChanLen(ch) == capN, "C10.ring.len")
	extra := nd_int64("x")
	nd_assert(!ChanTrySend(ch, unsafe.Pointer(&extra), 8), "C10.ring.full")
	for i := 0; i < 3; i++ {
		if i < capN {
			g, ok := recvv(ch)
			nd_assert(ok && g == vals[i], "C10.ring.order")
		}
	}
	nd_reach("C10.ring")
}

func recvOp(ch *Chan, v *int64) ChanOp { return ChanOp{C: ch, Val: unsafe.Pointer(v), Size: 8} }
func sendOp(ch *Chan, v *int64) ChanOp { return ChanOp{C: ch, Val: unsafe.Pointer(v), Size: 8, Send: true} }

// a closed buffered channel still delivers its buffered values through select
func H_select_closed_buffered() {
	ch := NewChan(8, 2)
	a := nd_int64("a")
	nd_assume(a != 0)
	sendv(ch, a)
	ChanClose(ch)
	var g int64
	isel, ok := Select(recvOp(ch, &g))
	nd_assert(isel == 0 && ok && g == a, "C10.select.closedbuffered.blocking")
	sendless := NewChan(8, 2)
	b := nd_int64("b")
	nd_assume(b != 0)
	sendv(sendless, b)
	ChanClose(sendless)
	var h int64
	i2, ok2, try2 := TrySelect(recvOp(sendless, &h))
	nd_assert(i2 == 0 && try2 && ok2 && h == b, "C10.select.closedbuffered.try")
	var z int64
	_, ok3, try3 := TrySelect(recvOp(sendless, &z))
	nd_assert(try3 && !ok3 && z == 0, "C10.select.closedbuffered.drained")
	nd_reach("C10.select.closedbuffered")
}

// select{recv a, recv b} with one sender on b: commits exactly the ready case
func selectRecv2(capacity int) {
	ca, cb := NewChan(8, capacity), NewChan(8, capacity)
	v := nd_int64("v")
	var ga, gb int64
	var isel int
	var ok bool
	nd_go(func() { sendv(cb, v) })
	nd_go(func() { isel, ok = Select(recvOp(ca, &ga), recvOp(cb, &gb)) })
	dl := nd_join()
	nd_assert(!dl, "C10.select.recv2.deadlock")
	nd_assert(isel == 1 && ok && gb == v && ga == 0, "C10.select.recv2.commit")
	nd_reach("C10.select.recv2")
}

func H_select_recv2_cap0() { selectRecv2(0) }
func H_select_recv2_cap1() { selectRecv2(1) }

// select{send ch, recv ch} in one thread and a plain sender in another: the
// select's receive case and the plain send can complete together
func H_select_sendrecv_plainsend() {
	ch := NewChan(8, 0)
	v := nd_int64("v")
	var out int64 = 5
	var in int64
	var isel int
	var ok bool
	nd_go(func() { isel, ok = Select(sendOp(ch, &out), recvOp(ch, &in)) })
	nd_go(func() { sendv(ch, v) })
	dl := nd_join()
	nd_assert(!dl, "C10.select.sendrecv.deadlock")
	nd_assert(isel == 1 && ok && in == v, "C10.select.sendrecv.commit")
	nd_reach("C10.select.sendrecv")
}

// two selects that can pair up: {send a} / {recv a} with alternatives that never fire
func H_select_pair() {
	ca, cb := NewChan(8, 0), NewChan(8, 0)
	v := nd_int64("v")
	var x, y int64
	var i1, i2 int
	var ok2 bool
	nd_go(func() { vv := v; i1, _ = Select(sendOp(ca, &vv), recvOp(cb, &x)) })
	nd_go(func() { i2, ok2 = Select(recvOp(ca, &y), recvOp(cb, &x)) })
	dl := nd_join()
	nd_assert(!dl, "C10.select.pair.deadlock")
	nd_assert(i1 == 0 && i2 == 0 && ok2 && y == v, "C10.select.pair.commit")
	nd_reach("C10.select.pair")
}

// two mirrored selects over a pair of unbuffered channels, one of them carrying an
// additional nil-channel case (which can never fire): a send and a receive on the
// same channel are pending together, so exactly one pair must communicate
func selectMirror(nilInA, nilInB bool) {
	c1, c2 := NewChan(8, 0), NewChan(8, 0)
	var a1, a2, b1, b2, z int64
	a1, b2 = 11, 22
	ia, ib := -1, -1
	nd_go(func() {
		if nilInA {
			ia, _ = Select(recvOp(nil, &z), sendOp(c1, &a1), recvOp(c2, &a2))
			ia--
		} else {
			ia, _ = Select(sendOp(c1, &a1), recvOp(c2, &a2))
		}
	})
	nd_go(func() {
		if nilInB {
			ib, _ = Select(recvOp(c1, &b1), sendOp(c2, &b2), sendOp(nil, &z))
		} else {
			ib, _ = Select(recvOp(c1, &b1), sendOp(c2, &b2))
		}
	})
	dl := nd_join()
	nd_assert(!dl, "C10.select.mirror.deadlock")
	nd_assert((ia == 0 && ib == 0 && b1 == 11 && a2 == 0) || (ia == 1 && ib == 1 && a2 == 22 && b1 == 0), "C10.select.mirror.commit")
	nd_reach("C10.select.mirror")
}

func H_select_mirror()      { selectMirror(false, false) }
func H_select_mirror_nilA() { selectMirror(true, false) }
func H_select_mirror_nilB() { selectMirror(false, true) }

// close wakes every receiver blocked in a select on the channel (n sleepers)
func closeWakesSelects(n int, capacity int) {
	ch := NewChan(8, capacity)
	woken := 0
	for i := 0; i < n; i++ {
		nd_go(func() {
			// the compiler hands Select a zero-initialised temporary (Builder.Alloc);
			// the runtime's contract is to leave it untouched on a closed channel
			var g int64
			isel, ok := Select(recvOp(ch, &g))
			if isel == 0 && !ok && g == 0 {
				woken++
			}
		})
	}
	nd_go(func() { ChanClose(ch) })
	dl := nd_join()
	nd_assert(!dl, "C10.select.closewakes.deadlock")
	nd_assert(woken == n, "C10.select.closewakes.all")
	nd_reach("C10.select.closewakes")
}

func H_select_closewakes2() { closeWakesSelects(2, 0) }
func H_select_closewakes3() { closeWakesSelects(3, 0) }

// close wakes every receiver blocked in a plain receive (three sleepers)
func H_chan_close_wakes3() {
	ch := NewChan(8, 0)
	woken := 0
	r := func() {
		v, ok := recvv(ch)
		if !ok && v == 0 {
			woken++
		}
	}
	nd_go(r)
	nd_go(r)
	nd_go(r)
	nd_go(func() { ChanClose(ch) })
	dl := nd_join()
	nd_assert(!dl, "C10.close3.deadlock")
	nd_assert(woken == 3, "C10.close3.all")
	nd_reach("C10.close3")
}

// select with default: nothing ready -> default (no state change); a full buffered
// channel refuses the send case; a ready case is committed, nil cases never fire
func H_select_default() {
	a, b := NewChan(8, 1), NewChan(8, 0)
	var g, z int64
	v := nd_int64("v")
	_, _, try0 := TrySelect(recvOp(a, &g), recvOp(b, &g), recvOp(nil, &z), sendOp(nil, &z), sendOp(b, &z))
	nd_assert(!try0 && g == 0, "C10.select.default.none-ready")
	vv := v
	i1, _, try1 := TrySelect(recvOp(nil, &z), sendOp(a, &vv))
	nd_assert(try1 && i1 == 1, "C10.select.default.send-ready")
	w := v + 1
	_, _, try2 := TrySelect(sendOp(a, &w))
	nd_assert(!try2, "C10.select.default.full")
	i3, ok3, try3 := TrySelect(recvOp(b, &z), recvOp(a, &g))
	nd_assert(try3 && i3 == 1 && ok3 && g == v, "C10.select.default.recv-ready")
	_, _, try4 := TrySelect(recvOp(a, &g))
	nd_assert(!try4, "C10.select.default.empty-again")
	nd_reach("C10.select.default")
}
