package runtime

import (
	"unsafe"

	"github.com/goplus/llgo/runtime/abi"
)


// mapType64 builds the descriptor of map[uint64]uint64 the way the compiler
// lays it out (bucket = 8 tophash bytes, 8 keys, 8 elems, overflow pointer),
// with an ARBITRARY hash function (nd_hash) and the real memequal64.
func mapType64() *abi.MapType {
	key := &abi.Type{Size_: 8, Align_: 8, FieldAlign_: 8, Kind_: uint8(abi.Uint64), Equal: memequal64}
	elem := &abi.Type{Size_: 8, Align_: 8, FieldAlign_: 8, Kind_: uint8(abi.Uint64), Equal: memequal64}
	bsize := uintptr(8 + 8*8 + 8*8 + 8)
	bucket := &abi.Type{Size_: bsize, PtrBytes: bsize, Align_: 8, FieldAlign_: 8, Kind_: uint8(abi.Struct)}
	return &abi.MapType{
		Type:       abi.Type{Size_: 8, PtrBytes: 8, Align_: 8, FieldAlign_: 8, Kind_: uint8(abi.Map)},
		Key:        key,
		Elem:       elem,
		Bucket:     bucket,
		Hasher:     func(p unsafe.Pointer, seed uintptr) uintptr { return nd_hash(*(*uint64)(p)) },
		KeySize:    8,
		ValueSize:  8,
		BucketSize: uint16(bsize),
		Flags:      4, // reflexive key
	}
}

// mapTypeCollide: every key lands in the same bucket chain (low hash bits are
// zero), tophash = low byte of the key: long overflow chains with few keys.
func mapTypeCollide() *abi.MapType {
	t := mapType64()
	t.Hasher = func(p unsafe.Pointer, seed uintptr) uintptr { return uintptr(*(*uint64)(p)) << 56 }
	return t
}

// pick forks the exploration over lo..hi and returns a concrete value per path
func pick(name string, lo, hi uint64) uint64 {
	x := nd_uint64(name)
	nd_assume(x >= lo && x <= hi)
	for c := lo; c < hi; c++ {
		if x == c {
			return c
		}
	}
	return hi
}

// one bucket chain of 8+n entries; two symbolic deletes of present keys, then a
// symbolic insert: lookups, len and iteration still agree with the finite map
func mapChain(n int, reinsert bool, iter bool) {
	t := mapTypeCollide()
	h := makemap(t, 0, nil)
	var g ghost
	for i := 1; i <= 8+n; i++ {
		mput(t, h, uint64(i), uint64(100+i))
		g.put(uint64(i), uint64(100+i))
	}
	d1, d2 := pick("d1", 1, uint64(8+n)), pick("d2", 1, uint64(8+n))
	mdel(t, h, d1)
	g.del(d1)
	mdel(t, h, d2)
	g.del(d2)
	if reinsert {
		k := pick("k", 1, uint64(8+n))
		mput(t, h, k, 7)
		g.put(k, 7)
	}
	checkAll(t, h, &g, "C06.chain")
	q := nd_uint64("q")
	nd_assume(q >= 1 && q <= uint64(9+n))
	checkLookup(t, h, &g, q, "C06.chain.lookup")
	if iter {
		checkIter(t, h, &g, "C06.chain")
	}
	nd_reach("C06.chain")
}

func H_map_chain2()        { mapChain(2, false, false) }
func H_map_chain2_insert() { mapChain(2, true, false) }
func H_map_chain3_iter()   { mapChain(3, true, true) }

func mput(t *abi.MapType, h *hmap, k, v uint64) {
	p := mapassign(t, h, unsafe.Pointer(&k))
	*(*uint64)(p) = v
}

func mget(t *abi.MapType, h *hmap, k uint64) (uint64, bool) {
	p, ok := mapaccess2(t, h, unsafe.Pointer(&k))
	if !ok {
		return 0, false
	}
	return *(*uint64)(p), true
}

func mdel(t *abi.MapType, h *hmap, k uint64) { mapdelete(t, h, unsafe.Pointer(&k)) }

// ghost: the finite map the operations must implement
type ghost struct {
	k, v [40]uint64
	live [40]bool
	n    int
}

// several rounds of fill / clear on one map: after every refill each key of the
// round is present (the last lookup key of the last round is symbolic)
func H_map_clear_rounds() {
	t := mapType64()
	h := makemap(t, 0, nil)
	for r := 0; r < 5; r++ {
		for i := 0; i < 90; i++ {
			mput(t, h, uint64(i+r*1000), uint64(i))
		}
		nd_assert(h.count == 90, "C06.clear.rounds.len")
		missing := 0
		for i := 0; i < 90; i++ {
			v, ok := mget(t, h, uint64(i+r*1000))
			if !ok || v != uint64(i) {
				missing++
			}
		}
		nd_assert(missing == 0, "C06.clear.rounds.present")
		if r == 4 {
			q := nd_uint64("q")
			nd_assume(q >= 4000 && q < 4090)
			_, ok := mget(t, h, q)
			nd_assert(ok, "C06.clear.rounds.lookup")
		}
		mapclear(t, h)
		nd_assert(h.count == 0, "C06.clear.rounds.cleared")
	}
	nd_reach("C06.clear.rounds")
}

// clear and refill beyond the next growth threshold: every key stored after the
// clear must be found (concrete keys; the final lookup key is symbolic)
func H_map_clear_regrow() {
	t := mapType64()
	h := makemap(t, 0, nil)
	for i := 0; i < 120; i++ {
		mput(t, h, uint64(i*3+1), uint64(i))
	}
	mapclear(t, h)
	nd_assert(h.count == 0, "C06.clear.len")
	const m = 230
	for i := 0; i < m; i++ {
		mput(t, h, uint64(i*5+2), uint64(1000+i))
	}
	nd_assert(h.count == m, "C06.clear.regrow.len")
	missing := 0
	for i := 0; i < m; i++ {
		v, ok := mget(t, h, uint64(i*5+2))
		if !ok || v != uint64(1000+i) {
			missing++
		}
	}
	nd_assert(missing == 0, "C06.clear.regrow.present")
	q := nd_uint64("q")
	nd_assume(q < 5*m && q%5 == 2)
	_, ok := mget(t, h, q)
	nd_assert(ok, "C06.clear.regrow.lookup")
	nd_reach("C06.clear.regrow")
}

func (g *ghost) find(k uint64) int {
	r := -1
	for i := 0; i < g.n; i++ {
		if g.live[i] && g.k[i] == k {
			r = i
		}
	}
	return r
}
func (g *ghost) put(k, v uint64) {
	if i := g.find(k); i >= 0 {
		g.v[i] = v
		return
	}
	g.k[g.n], g.v[g.n], g.live[g.n] = k, v, true
	g.n++
}
func (g *ghost) del(k uint64) {
	if i := g.find(k); i >= 0 {
		g.live[i] = false
	}
}
func (g *ghost) count() int {
	c := 0
	for i := 0; i < g.n; i++ {
		if g.live[i] {
			c++
		}
	}
	return c
}

func checkLookup(t *abi.MapType, h *hmap, g *ghost, k uint64, id string) {
	v, ok := mget(t, h, k)
	i := g.find(k)
	if i >= 0 {
		nd_assert(ok && v == g.v[i], id)
	} else {
		nd_assert(!ok && v == 0, id)
	}
}

func checkAll(t *abi.MapType, h *hmap, g *ghost, id string) {
	nd_assert(h.count == g.count(), id+".len")
	for i := 0; i < g.n; i++ {
		if g.live[i] {
			v, ok := mget(t, h, g.k[i])
			nd_assert(ok && v == g.v[i], id+".present")
		}
	}
}

// checkIter: a complete iteration yields every live entry exactly once
func checkIter(t *abi.MapType, h *hmap, g *ghost, id string) {
	var it hiter
	var seen [24]int
	mapiterinit(t, h, &it)
	steps := 0
	for it.key != nil && steps < 40 {
		k := *(*uint64)(it.key)
		v := *(*uint64)(it.elem)
		i := g.find(k)
		nd_assert(i >= 0 && g.v[i] == v, id+".iter.live")
		if i >= 0 {
			seen[i]++
		}
		mapiternext(&it)
		steps++
	}
	ok := true
	for i := 0; i < g.n; i++ {
		want := 0
		if g.live[i] {
			want = 1
		}
		if seen[i] != want {
			ok = false
		}
	}
	nd_assert(ok, id+".iter.once")
}

// symbolic operations after a concrete prefix of n inserts
func mapScript(prefix int, ops int, iter bool, full bool) {
	t := mapType64()
	h := makemap(t, 0, nil)
	var g ghost
	for i := 0; i < prefix; i++ {
		k := uint64(i*7 + 1)
		mput(t, h, k, uint64(100+i))
		g.put(k, uint64(100+i))
	}
	for j := 0; j < ops; j++ {
		k := nd_uint64("k")
		switch nd_int("op") {
		case 0:
			v := nd_uint64("v")
			mput(t, h, k, v)
			g.put(k, v)
		case 1:
			mdel(t, h, k)
			g.del(k)
		default:
			checkLookup(t, h, &g, k, "C06.lookup")
		}
	}
	q := nd_uint64("q")
	checkLookup(t, h, &g, q, "C06.lookup")
	nd_assert(h.count == g.count(), "C06.all.len")
	if full {
		checkAll(t, h, &g, "C06.all")
	}
	if iter {
		checkIter(t, h, &g, "C06")
	}
	nd_reach("C06.script")
}

func H_map_p0_ops2()  { mapScript(0, 2, true, true) }
func H_map_p7_ops1()  { mapScript(7, 1, false, false) }
func H_map_p7_ops2()  { mapScript(7, 2, false, true) }
func H_map_p8_ops1()  { mapScript(8, 1, false, false) }
func H_map_p8_ops2()  { mapScript(8, 2, false, true) }
func H_map_p9_ops1()  { mapScript(9, 1, true, true) }
func H_map_p14_ops1() { mapScript(14, 1, false, true) }

// clear and refill a map that has grown to B >= 4 with overflow buckets in use
func H_map_clear_refill() {
	t := mapType64()
	h := makemap(t, 0, nil)
	var g ghost
	n := 120
	for i := 0; i < n; i++ {
		mput(t, h, uint64(i*3+1), uint64(i))
	}
	mapclear(t, h)
	nd_assert(h.count == 0, "C06.clear.len")
	for i := 0; i < 20; i++ {
		k := uint64(i*5 + 2)
		mput(t, h, k, uint64(1000+i))
		g.put(k, uint64(1000+i))
	}
	q := nd_uint64("q")
	checkLookup(t, h, &g, q, "C06.clear.refill.lookup")
	checkAll(t, h, &g, "C06.clear.refill")
	nd_reach("C06.clear")
}

// nil map: reads yield zero values, writes panic
func H_map_nil() {
	t := mapType64()
	k := nd_uint64("k")
	v, ok := mget(t, nil, k)
	nd_assert(!ok && v == 0, "C06.nil.read")
	nd_assert(nd_try(func() { mput(t, nil, k, 1) }), "C06.nil.write")
	nd_reach("C06.nil")
}

// ---- same-size grow (overflow-bucket churn) ---------------------------------------

// mapTypeIdent: hash(k) = k, so the low bits of a key choose its bucket and its top
// byte is the tophash: the harness steers which buckets a script touches.
func mapTypeIdent() *abi.MapType {
	t := mapType64()
	t.Hasher = func(p unsafe.Pointer, seed uintptr) uintptr { return uintptr(*(*uint64)(p)) }
	return t
}

// grownMap: 16 keys 1..16 in a table of 4 buckets (B == 2), no grow in progress.
func grownMap(t *abi.MapType, g *ghost) *hmap {
	h := makemap(t, 0, nil)
	for i := 1; i <= 16; i++ {
		mput(t, h, uint64(i), uint64(100+i))
		g.put(uint64(i), uint64(100+i))
	}
	nd_assume(h.B == 2 && !h.growing())
	return h
}

// forceSameSizeGrow puts the map into the state overflow-bucket churn leads to
// (noverflow >= 2^B while the load factor is fine: deletes do not decrement
// noverflow), so that the next insert starts a same-size grow.
func forceSameSizeGrow(h *hmap) { h.noverflow = 1 << h.B }

// a range loop whose body starts a same-size grow and keeps writing: every entry
// that is present for the whole loop is produced exactly once, a deleted entry is
// not produced after its deletion, nothing is produced twice
func mapSameSizeIter(wide bool, del bool) {
	t := mapTypeIdent()
	var g ghost
	h := grownMap(t, &g)
	var it hiter
	var seen [40]int
	// the random start position, chosen by the harness: every start bucket, slot
	// offsets 0 and 5 (mapiterinit: startBucket = r & 3, offset = r >> 2 & 7)
	if wide {
		nd_setrand(int(pick("sb", 0, 3) | pick("off", 0, 1)*5<<2))
	} else {
		nd_setrand(int(pick("sb", 0, 1) * 3))
	}
	mapiterinit(t, h, &it)
	steps := 0
	// one loop iteration = consume (the loop variables are assigned from the iterator's
	// current entry), the loop body, advance (mapiternext) - as the compiler emits it
	consume := func(deleted uint64) {
		k := *(*uint64)(it.key)
		v := *(*uint64)(it.elem)
		i := g.find(k)
		nd_assert(k != deleted, "C06.samesize.iter.nodeleted")
		nd_assert(i >= 0 && g.v[i] == v, "C06.samesize.iter.live")
		if i >= 0 {
			seen[i]++
		}
	}
	advance := func() {
		mapiternext(&it)
		steps++
	}
	var pre uint64
	if wide {
		pre = pick("pre", 0, 3)
	} else {
		pre = pick("pre", 0, 1) * 2
	}
	for it.key != nil && uint64(steps) < pre {
		consume(0)
		advance()
	}
	var k1, k2, deleted uint64
	if it.key != nil {
		consume(0)
		// loop body, first write: a new key, which starts the same-size grow
		forceSameSizeGrow(h)
		if wide {
			k1 = pick("k1", 17, 20)
		} else {
			k1 = 17 + 2*pick("k1", 0, 1) // bucket 1 or 3
		}
		mput(t, h, k1, 1)
		g.put(k1, 1)
		nd_assume(h.growing() && h.sameSizeGrow())
		advance()
	}
	if it.key != nil {
		consume(0)
		// loop body, second write: update or delete of an old key (evacuates its bucket);
		// it may be the entry just produced - that one has been seen already
		if wide {
			k2 = pick("k2", 1, 4)
		} else {
			k2 = 1 + 2*pick("k2", 0, 1)
		}
		if del {
			mdel(t, h, k2)
			g.del(k2)
			deleted = k2
		} else {
			mput(t, h, k2, 2)
			g.put(k2, 2)
		}
		advance()
	}
	for it.key != nil && steps < 40 {
		consume(deleted)
		advance()
	}
	ok := true
	for i := 0; i < g.n; i++ {
		switch {
		case (k1 != 0 && g.k[i] == k1) || (deleted != 0 && g.k[i] == deleted):
			if seen[i] > 1 {
				ok = false
			}
		case k2 != 0 && g.k[i] == k2 && !del:
			// updated during the loop: produced once, with the old or the new value
			if seen[i] != 1 {
				ok = false
			}
		default:
			if seen[i] != 1 {
				ok = false
			}
		}
	}
	nd_assert(ok, "C06.samesize.iter.once")
	checkAll(t, h, &g, "C06.samesize.all")
	nd_reach("C06.samesize.iter")
}

func H_map_samesize_iter()          { mapSameSizeIter(false, false) }
func H_map_samesize_iter_del()      { mapSameSizeIter(false, true) }
func H_map_samesize_iter_wide()     { mapSameSizeIter(true, false) }
func H_map_samesize_iter_del_wide() { mapSameSizeIter(true, true) }

// clear() while a same-size grow is still being evacuated, then enough inserts to
// cross the next doubling: every key stored after the clear is found
func H_map_samesize_clear() {
	t := mapTypeIdent()
	var g ghost
	h := grownMap(t, &g)
	forceSameSizeGrow(h)
	mput(t, h, 17, 1)
	nd_assume(h.growing() && h.sameSizeGrow())
	mapclear(t, h)
	g = ghost{}
	nd_assert(h.count == 0, "C06.samesize.clear.len")
	for i := 0; i < 23; i++ {
		k := uint64(100 + i*5)
		mput(t, h, k, uint64(i))
		g.put(k, uint64(i))
	}
	for i := 0; i < 8; i++ {
		k := uint64(300 + i*3)
		mput(t, h, k, uint64(i))
		g.put(k, uint64(i))
	}
	nd_assume(h.B == 3)
	checkAll(t, h, &g, "C06.samesize.clear.all")
	q := nd_uint64("q")
	checkLookup(t, h, &g, q, "C06.samesize.clear.lookup")
	nd_reach("C06.samesize.clear")
}

// ---- NaN keys: every insert is a new entry with a random hash; only iteration sees them ----

// mapTypeNaN: map[float64]uint64 with the real f64equal; like f64hash the hasher
// draws a fresh random hash for a NaN at every call (bucket bits = low byte, tophash =
// next byte of the random value), so evacuation re-hashes NaN entries at random.
func mapTypeNaN() *abi.MapType {
	t := mapType64()
	t.Key = &abi.Type{Size_: 8, Align_: 8, FieldAlign_: 8, Kind_: uint8(abi.Float64), Equal: f64equal}
	t.Hasher = func(p unsafe.Pointer, seed uintptr) uintptr {
		f := *(*float64)(p)
		if f != f {
			r := uintptr(fastrand())
			return r&0xff | (r>>8&0xff)<<56
		}
		if f == 0 {
			return 0x55 // +0 and -0 are equal keys: one hash (as f64hash does)
		}
		return uintptr(*(*uint64)(p))
	}
	t.Flags = 8 // NeedKeyUpdate; the key is not reflexive
	return t
}

// a range loop that starts while the table is doubling (4 old buckets, some not yet
// evacuated) and whose body inserts another NaN: every entry that was present when
// the loop started is produced exactly once, the new one at most once
func mapNaNIterGrow(seeds, pres uint64) {
	t := mapTypeNaN()
	x := uint32(pick("seed", 0, seeds))*2654435761 + 12345
	for i := 0; i < 200; i++ {
		x = x*1664525 + 1013904223
		nd_setrand(int(x >> 8 & 0xffff))
	}
	h := makemap(t, 0, nil)
	bits := uint64(0x7ff8000000000001)
	nan := *(*float64)(unsafe.Pointer(&bits))
	// insert until the table is in the middle of doubling from 4 to 8 buckets
	n := 0
	for n < 36 && !(h.B == 3 && h.growing()) {
		p := mapassign(t, h, unsafe.Pointer(&nan))
		n++
		*(*uint64)(p) = uint64(n)
	}
	nd_assume(h.count == n && h.B == 3 && h.growing() && !h.sameSizeGrow())
	var it hiter
	var seen [40]int
	mapiterinit(t, h, &it)
	steps := 0
	step := func() {
		v := *(*uint64)(it.elem)
		nd_assert(v >= 1 && v <= uint64(n+1), "C06.nan.iter.live")
		if v < 40 {
			seen[v]++
		}
		mapiternext(&it)
		steps++
	}
	pre := int(pick("pre", 0, pres)) * 4
	for it.key != nil && steps < pre {
		step()
	}
	p := mapassign(t, h, unsafe.Pointer(&nan))
	*(*uint64)(p) = uint64(n + 1)
	for it.key != nil && steps < 60 {
		step()
	}
	ok := seen[n+1] <= 1
	for i := 1; i <= n; i++ {
		if seen[i] != 1 {
			ok = false
		}
	}
	nd_assert(ok, "C06.nan.iter.once")
	nd_assert(h.count == n+1, "C06.nan.len")
	nd_reach("C06.nan.iter")
}

func H_map_nan_iter_grow()      { mapNaNIterGrow(3, 3) }
func H_map_nan_iter_grow_wide() { mapNaNIterGrow(15, 6) }

// signed zeros are one key; NaN never matches; ordinary float keys behave as usual
func H_map_float_zero_nan() {
	t := mapTypeNaN()
	nd_setrand(7)
	h := makemap(t, 0, nil)
	fput := func(f float64, v uint64) {
		nd_setrand(int(v) * 37)
		*(*uint64)(mapassign(t, h, unsafe.Pointer(&f))) = v
	}
	fget := func(f float64) (uint64, bool) {
		nd_setrand(99)
		p, ok := mapaccess2(t, h, unsafe.Pointer(&f))
		if !ok {
			return 0, false
		}
		return *(*uint64)(p), true
	}
	pz := 0.0
	nbits := uint64(1) << 63
	nz := *(*float64)(unsafe.Pointer(&nbits))
	qbits := uint64(0x7ff8000000000001)
	nan := *(*float64)(unsafe.Pointer(&qbits))
	xbits := nd_uint64("x")
	x := *(*float64)(unsafe.Pointer(&xbits))
	nd_assume(x == x && x != 0)
	fput(pz, 1)
	fput(nz, 2)
	nd_assert(h.count == 1, "C06.float.zero.one-entry")
	v, ok := fget(pz)
	nd_assert(ok && v == 2, "C06.float.zero.lookup")
	fput(nan, 3)
	fput(nan, 4)
	nd_assert(h.count == 3, "C06.float.nan.distinct")
	_, ok = fget(nan)
	nd_assert(!ok, "C06.float.nan.nolookup")
	fput(x, 5)
	v, ok = fget(x)
	nd_assert(ok && v == 5 && h.count == 4, "C06.float.ordinary")
	nd_setrand(99)
	mapdelete(t, h, unsafe.Pointer(&nz))
	_, ok = fget(pz)
	nd_assert(!ok && h.count == 3, "C06.float.zero.delete")
	nd_reach("C06.float")
}
