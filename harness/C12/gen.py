#!/usr/bin/env python3
"""C12 corpus: small multi-package programs whose package-level variables are
initialised from external values (nd) and from each other across packages."""
import json, os, sys

HDR = '''import _ "unsafe"

//go:linkname trace C.trace
func trace(x int)

//go:linkname nd C.nd
func nd() int
'''

PROGRAMS = {
    # name -> {relative file: source}
    'chain': {
        'a/a.go': 'package a\n\n' + HDR + '''
var X = nd()
var Y = X + 1

func init() {
	trace(100 + Y - X)
	X += 2
}
''',
        'b/b1.go': 'package b\n\nimport "MOD/a"\n\n' + HDR + '''
// declared out of dependency order on purpose
var P = Q * 2
var Q = a.Y + nd()

func init() {
	trace(200)
	P++
}
''',
        'b/b2.go': 'package b\n\nimport "MOD/a"\n\nvar R = a.X*3 + P\n\nfunc init() {\n\ttrace(201)\n\tR += 1\n}\n\nfunc init() {\n\ttrace(202)\n}\n',
        'main.go': 'package MODNAME\n\nimport (\n\t"MOD/a"\n\t"MOD/b"\n)\n\n' + HDR + '''
var M = b.R + a.X

func init() {
	trace(900)
}

func Run(k int) int {
	trace(M)
	trace(b.P)
	trace(b.Q)
	trace(a.Y)
	return M*7 + b.R + k
}
''',
    },
    'diamond': {
        'a/a.go': 'package a\n\n' + HDR + '''
var Count int
var X = bump()

func bump() int {
	Count++
	trace(10 + Count)
	return nd()
}

func init() { trace(19) }
''',
        'b/b.go': 'package b\n\nimport "MOD/a"\n\n' + HDR + '\nvar V = a.X + 1\n\nfunc init() { trace(20); a.Count += 10 }\n',
        'c/c.go': 'package c\n\nimport "MOD/a"\n\n' + HDR + '\nvar W = a.X + nd()\n\nfunc init() { trace(30); a.Count += 100 }\n',
        'main.go': 'package MODNAME\n\nimport (\n\t"MOD/a"\n\t"MOD/b"\n\t"MOD/c"\n)\n\n' + HDR + '''
var (
	S = T + b.V
	T = c.W * 2
)

func init() { trace(90) }
func init() { trace(91 + a.Count) }

func Run(k int) int {
	trace(S)
	trace(T)
	return S + a.Count*1000 + k
}
''',
    },
    'passthrough': {
        # mid has no initialisers or init functions of its own: it must still
        # pass initialisation on to leaf before main's variables are computed
        'leaf/leaf.go': 'package leaf\n\n' + HDR + '\nvar V = nd() + 5\n\nfunc init() { trace(10); V *= 2 }\n',
        'mid/mid.go': 'package mid\n\nimport "MOD/leaf"\n\nfunc Get() int { return leaf.V }\n',
        'side/side.go': 'package side\n\n' + HDR + '\nvar Z = nd()\n\nfunc init() { trace(20) }\n',
        'main.go': 'package MODNAME\n\nimport (\n\t"MOD/mid"\n\t"MOD/side"\n)\n\n' + HDR + '''
var M = mid.Get() + side.Z

func init() { trace(100) }

func Run(k int) int {
	trace(M)
	return M + k
}
''',
    },
    'files': {
        # one package, three files (presented to the compiler in file-name order):
        # variables initialise in dependency order, then declaration order across
        # files; init functions run in file order, several per file in source order
        'p/z.go': 'package p\n\n' + HDR + '''
var Z1 = A2 + 1 // depends on a variable of a.go that depends on m.go
var Z2 = nd()

func init() { trace(31); Log = Log*10 + 3 }
''',
        'p/a.go': 'package p\n\nvar Log int\n\nvar A1 = nd()\nvar A2 = M1() * 2\n\nfunc init() { trace(11); Log = Log*10 + 1 }\nfunc init() { trace(12); Log = Log*10 + 1 }\n',
        'p/m.go': 'package p\n\nvar M0 = helper() + Z2 // through a function body, to a later file\n\nfunc M1() int { return M0 + A1 }\nfunc helper() int { return hidden * 3 }\n\nvar hidden = nd() & 15\n\nfunc init() { trace(21); Log = Log*10 + 2 }\n',
        'main.go': 'package MODNAME\n\nimport "MOD/p"\n\n' + HDR + '''
func Run(k int) int {
	trace(p.A1)
	trace(p.A2)
	trace(p.M0)
	trace(p.Z1)
	trace(p.Z2)
	trace(p.Log)
	return p.Z1 + k
}
''',
    },
    'funcinit': {
        'a/a.go': 'package a\n\n' + HDR + '''
type T struct{ A, B int }

var Tab = [3]int{nd(), 2, nd()}
var S = T{A: Tab[0] + Tab[2], B: f()}

func f() int { trace(50); return Tab[1] * 5 }
''',
        'main.go': 'package MODNAME\n\nimport "MOD/a"\n\n' + HDR + '''
var G = func() int { trace(60); return a.S.A - a.S.B }()

func Run(k int) int {
	trace(G)
	return G + a.Tab[k&1]
}
''',
    },
}


def main():
    out, tier = sys.argv[1], sys.argv[2]
    meta = {}
    os.makedirs(out, exist_ok=True)
    progs = {}
    for name, files in PROGRAMS.items():
        mod = 'tvc12' + name
        d = os.path.join(out, name)
        pkgs = set()
        for rel, src in files.items():
            p = os.path.join(d, rel)
            os.makedirs(os.path.dirname(p), exist_ok=True)
            open(p, 'w').write(src.replace('MODNAME', mod).replace('MOD', mod))
            if os.path.dirname(rel):
                pkgs.add(mod + '/' + os.path.dirname(rel))
        open(os.path.join(d, 'go.mod'), 'w').write('module %s\n\ngo 1.24\n' % mod)
        progs[name] = {'dir': d, 'pkgpath': mod, 'pkgs': sorted(pkgs), 'funcs': {'Run': {'params': [('k', 'int')], 'result': 'int'}}}
    json.dump(progs, open(os.path.join(out, 'programs.json'), 'w'))
    print(len(progs))


main()
