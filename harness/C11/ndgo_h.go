package runtime

import _ "unsafe"

//go:linkname nd_go github.com/goplus/llgo/runtime/internal/zzstand/psync.Go
func nd_go(f func())

//go:linkname nd_join github.com/goplus/llgo/runtime/internal/zzstand/psync.Join
func nd_join() bool

