package atomic

import _ "unsafe"

//go:linkname nd_go github.com/goplus/llgo/runtime/internal/zzstand/psync.Go
func nd_go(f func())

//go:linkname nd_join github.com/goplus/llgo/runtime/internal/zzstand/psync.Join
func nd_join() bool

func asInt(v any) int {
	if v == nil {
		return -1
	}
	return v.(int)
}

// two concurrent Swaps on a Value holding A: the three observations form a
// chain A -> x -> y (each stored value is returned or left exactly once)
func H_value_swap_swap() {
	var v Value
	v.Store(10)
	r1, r2 := -2, -2
	nd_go(func() { r1 = asInt(v.Swap(20)) })
	nd_go(func() { r2 = asInt(v.Swap(30)) })
	dl := nd_join()
	f := asInt(v.Load())
	nd_assert(!dl, "C11.value.swapswap.deadlock")
	ok := (r1 == 10 && r2 == 20 && f == 30) || (r2 == 10 && r1 == 30 && f == 20)
	nd_assert(ok, "C11.value.swapswap.linearizable")
	nd_reach("C11.value.swapswap")
}

// Swap against CompareAndSwap
func H_value_swap_cas() {
	var v Value
	v.Store(10)
	r1 := -2
	sw := false
	nd_go(func() { r1 = asInt(v.Swap(20)) })
	nd_go(func() { sw = v.CompareAndSwap(10, 30) })
	dl := nd_join()
	f := asInt(v.Load())
	nd_assert(!dl, "C11.value.swapcas.deadlock")
	ok := (sw && r1 == 30 && f == 20) || (!sw && r1 == 10 && f == 20)
	nd_assert(ok, "C11.value.swapcas.linearizable")
	nd_reach("C11.value.swapcas")
}

// first Store racing a Load: Load sees nil or the stored value, never a torn one
func H_value_store_load() {
	var v Value
	r := -2
	nd_go(func() { v.Store(7) })
	nd_go(func() { r = asInt(v.Load()) })
	dl := nd_join()
	nd_assert(!dl, "C11.value.storeload.deadlock")
	nd_assert(r == -1 || r == 7, "C11.value.storeload.untorn")
	nd_reach("C11.value.storeload")
}

// the FIRST write to an empty Value through Swap / CompareAndSwap, racing a Load:
// the publication protocol (type word, then data word) must never expose a
// half-written value
func H_value_firstswap_load() {
	var v Value
	r, r1 := -2, -2
	nd_go(func() { r1 = asInt(v.Swap(7)) })
	nd_go(func() { r = asInt(v.Load()) })
	dl := nd_join()
	nd_assert(!dl, "C11.value.firstswapload.deadlock")
	nd_assert(r1 == -1, "C11.value.firstswapload.old")
	nd_assert(r == -1 || r == 7, "C11.value.firstswapload.untorn")
	nd_reach("C11.value.firstswapload")
}

func H_value_firstswap_store() {
	var v Value
	r1 := -2
	nd_go(func() { r1 = asInt(v.Swap(7)) })
	nd_go(func() { v.Store(9) })
	dl := nd_join()
	f := asInt(v.Load())
	nd_assert(!dl, "C11.value.firstswapstore.deadlock")
	nd_assert((r1 == -1 && f == 9) || (r1 == 9 && f == 7), "C11.value.firstswapstore.linearizable")
	nd_reach("C11.value.firstswapstore")
}

func H_value_firstcas_load() {
	var v Value
	r := -2
	sw := false
	nd_go(func() { sw = v.CompareAndSwap(nil, 7) })
	nd_go(func() { r = asInt(v.Load()) })
	dl := nd_join()
	nd_assert(!dl, "C11.value.firstcasload.deadlock")
	nd_assert(sw, "C11.value.firstcasload.swapped")
	nd_assert(r == -1 || r == 7, "C11.value.firstcasload.untorn")
	nd_reach("C11.value.firstcasload")
}
