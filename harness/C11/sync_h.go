package runtime

import "sync"

// Go's own sync package (GOROOT sources, the ones llgo compiles) on top of
// llgo's semaphores / notify list: sync.runtime_Sem* and runtime_notifyList* are
// bodiless in package sync and are resolved, exactly like llgo's linker does, to
// the functions of this package that carry the matching //go:linkname.

// Mutex: mutual exclusion, both goroutines get through, the lock ends up free.
func H_sync_mutex2() {
	var mu sync.Mutex
	inside, maxInside, count := 0, 0, 0
	body := func() {
		mu.Lock()
		inside++
		if inside > maxInside {
			maxInside = inside
		}
		count++
		inside--
		mu.Unlock()
	}
	nd_go(body)
	nd_go(body)
	dl := nd_join()
	nd_assert(!dl, "C11.sync.mutex2.deadlock")
	nd_assert(maxInside == 1, "C11.sync.mutex2.mutex")
	nd_assert(count == 2, "C11.sync.mutex2.count")
	nd_assert(mu.TryLock(), "C11.sync.mutex2.free")
	nd_reach("C11.sync.mutex2")
}

// Mutex, three goroutines.
func H_sync_mutex3() {
	var mu sync.Mutex
	inside, maxInside, count := 0, 0, 0
	body := func() {
		mu.Lock()
		inside++
		if inside > maxInside {
			maxInside = inside
		}
		count++
		inside--
		mu.Unlock()
	}
	nd_go(body)
	nd_go(body)
	nd_go(body)
	dl := nd_join()
	nd_assert(!dl, "C11.sync.mutex3.deadlock")
	nd_assert(maxInside == 1, "C11.sync.mutex3.mutex")
	nd_assert(count == 3, "C11.sync.mutex3.count")
	nd_reach("C11.sync.mutex3")
}

// Mutex re-acquired by the same goroutine while another one waits (with the
// clock arbitrary this reaches the starvation hand-off of sync.Mutex).
func H_sync_mutex_relock() {
	var mu sync.Mutex
	inside, maxInside, count := 0, 0, 0
	cs := func() {
		mu.Lock()
		inside++
		if inside > maxInside {
			maxInside = inside
		}
		count++
		inside--
		mu.Unlock()
	}
	nd_go(func() { cs(); cs() })
	nd_go(cs)
	dl := nd_join()
	nd_assert(!dl, "C11.sync.relock.deadlock")
	nd_assert(maxInside == 1, "C11.sync.relock.mutex")
	nd_assert(count == 3, "C11.sync.relock.count")
	nd_reach("C11.sync.relock")
}

// RWMutex: a writer excludes readers and other writers; readers may overlap.
func H_sync_rwmutex() {
	var rw sync.RWMutex
	readers, writers, bad, done := 0, 0, false, 0
	rd := func() {
		rw.RLock()
		readers++
		if writers != 0 {
			bad = true
		}
		readers--
		rw.RUnlock()
		done++
	}
	wr := func() {
		rw.Lock()
		writers++
		if writers != 1 || readers != 0 {
			bad = true
		}
		writers--
		rw.Unlock()
		done++
	}
	nd_go(rd)
	nd_go(wr)
	nd_go(rd)
	dl := nd_join()
	nd_assert(!dl, "C11.sync.rwmutex.deadlock")
	nd_assert(!bad, "C11.sync.rwmutex.exclusion")
	nd_assert(done == 3, "C11.sync.rwmutex.admitted")
	nd_reach("C11.sync.rwmutex")
}

// RWMutex: two writers and a reader.
func H_sync_rwmutex_2w() {
	var rw sync.RWMutex
	readers, writers, bad, done := 0, 0, false, 0
	rd := func() {
		rw.RLock()
		readers++
		if writers != 0 {
			bad = true
		}
		readers--
		rw.RUnlock()
		done++
	}
	wr := func() {
		rw.Lock()
		writers++
		if writers != 1 || readers != 0 {
			bad = true
		}
		writers--
		rw.Unlock()
		done++
	}
	nd_go(wr)
	nd_go(rd)
	nd_go(wr)
	dl := nd_join()
	nd_assert(!dl, "C11.sync.rwmutex2w.deadlock")
	nd_assert(!bad, "C11.sync.rwmutex2w.exclusion")
	nd_assert(done == 3, "C11.sync.rwmutex2w.admitted")
	nd_reach("C11.sync.rwmutex2w")
}

// WaitGroup: Wait returns only after both workers called Done.
func H_sync_waitgroup() {
	var wg sync.WaitGroup
	a, b, early, waited := false, false, false, false
	wg.Add(2)
	nd_go(func() { a = true; wg.Done() })
	nd_go(func() { b = true; wg.Done() })
	nd_go(func() {
		wg.Wait()
		if !a || !b {
			early = true
		}
		waited = true
	})
	dl := nd_join()
	nd_assert(!dl, "C11.sync.waitgroup.deadlock")
	nd_assert(!early, "C11.sync.waitgroup.afterzero")
	nd_assert(waited, "C11.sync.waitgroup.returns")
	nd_reach("C11.sync.waitgroup")
}

// WaitGroup with two waiters.
func H_sync_waitgroup_2wait() {
	var wg sync.WaitGroup
	a, early, n := false, false, 0
	wg.Add(1)
	w := func() {
		wg.Wait()
		if !a {
			early = true
		}
		n++
	}
	nd_go(w)
	nd_go(func() { a = true; wg.Done() })
	nd_go(w)
	dl := nd_join()
	nd_assert(!dl, "C11.sync.waitgroup2.deadlock")
	nd_assert(!early, "C11.sync.waitgroup2.afterzero")
	nd_assert(n == 2, "C11.sync.waitgroup2.returns")
	nd_reach("C11.sync.waitgroup2")
}

// Once: the function runs exactly once and has finished before any Do returns.
func H_sync_once() {
	var once sync.Once
	runs, finished, early := 0, false, false
	f := func() { runs++; finished = true }
	body := func() {
		once.Do(f)
		if !finished {
			early = true
		}
	}
	nd_go(body)
	nd_go(body)
	nd_go(body)
	dl := nd_join()
	nd_assert(!dl, "C11.sync.once.deadlock")
	nd_assert(runs == 1, "C11.sync.once.exactlyonce")
	nd_assert(!early, "C11.sync.once.before-return")
	nd_reach("C11.sync.once")
}

// Cond: Wait returns only after a Signal; a Signal with a registered waiter
// wakes it.
func H_sync_cond_signal() {
	var mu sync.Mutex
	c := sync.NewCond(&mu)
	waiting, signalled, woke, early := false, false, false, false
	nd_go(func() {
		mu.Lock()
		waiting = true
		c.Wait()
		if !signalled {
			early = true
		}
		woke = true
		mu.Unlock()
	})
	nd_go(func() {
		mu.Lock()
		if waiting {
			signalled = true
			c.Signal()
		}
		mu.Unlock()
	})
	dl := nd_join()
	nd_assert(!early, "C11.sync.cond.signal.covered")
	nd_assert(woke == signalled, "C11.sync.cond.signal.wakes")
	nd_assert(dl == !signalled, "C11.sync.cond.signal.deadlock")
	nd_reach("C11.sync.cond.signal")
}

// Cond: the usual predicate loop with Broadcast, two waiters.
func H_sync_cond_broadcast() {
	var mu sync.Mutex
	c := sync.NewCond(&mu)
	ready, n := false, 0
	w := func() {
		mu.Lock()
		for lw := 0; !ready && lw < 4; lw++ {
			c.Wait()
		}
		if ready {
			n++
		}
		mu.Unlock()
	}
	nd_go(w)
	nd_go(w)
	nd_go(func() {
		mu.Lock()
		ready = true
		mu.Unlock()
		c.Broadcast()
	})
	dl := nd_join()
	nd_assert(!dl, "C11.sync.cond.broadcast.deadlock")
	nd_assert(n == 2, "C11.sync.cond.broadcast.all")
	nd_reach("C11.sync.cond.broadcast")
}

// Cond: one Signal wakes exactly one of two registered waiters.
func H_sync_cond_one_of_two() {
	var mu sync.Mutex
	c := sync.NewCond(&mu)
	waiting, woke := 0, 0
	w := func() {
		mu.Lock()
		waiting++
		c.Wait()
		woke++
		mu.Unlock()
	}
	nd_go(w)
	nd_go(w)
	nd_go(func() {
		mu.Lock()
		k := waiting
		mu.Unlock()
		if k == 2 {
			c.Signal()
		}
	})
	dl := nd_join()
	nd_assert(woke <= 1, "C11.sync.cond.one.atmostone")
	nd_assert(dl, "C11.sync.cond.one.other-still-waits")
	nd_reach("C11.sync.cond.one")
}

// Cond: predicate loop with Broadcast, one waiter (quick-tier variant).
func H_sync_cond_broadcast1() {
	var mu sync.Mutex
	c := sync.NewCond(&mu)
	ready, n := false, 0
	nd_go(func() {
		mu.Lock()
		for lw := 0; !ready && lw < 4; lw++ {
			c.Wait()
		}
		if ready {
			n++
		}
		mu.Unlock()
	})
	nd_go(func() {
		mu.Lock()
		ready = true
		mu.Unlock()
		c.Broadcast()
	})
	dl := nd_join()
	nd_assert(!dl, "C11.sync.cond.broadcast1.deadlock")
	nd_assert(n == 1, "C11.sync.cond.broadcast1.all")
	nd_reach("C11.sync.cond.broadcast1")
}

// TryLock never succeeds while the mutex is held and never blocks
func H_sync_trylock() {
	var mu sync.Mutex
	inside, maxInside, got := 0, 0, 0
	nd_go(func() {
		mu.Lock()
		inside++
		if inside > maxInside {
			maxInside = inside
		}
		inside--
		mu.Unlock()
	})
	nd_go(func() {
		if mu.TryLock() {
			got++
			inside++
			if inside > maxInside {
				maxInside = inside
			}
			inside--
			mu.Unlock()
		}
	})
	dl := nd_join()
	nd_assert(!dl, "C11.sync.trylock.deadlock")
	nd_assert(maxInside == 1, "C11.sync.trylock.mutex")
	nd_assert(mu.TryLock(), "C11.sync.trylock.free")
	nd_reach("C11.sync.trylock")
}

// RWMutex: TryRLock / TryLock against a writer
func H_sync_rw_try() {
	var rw sync.RWMutex
	readers, writers, bad := 0, 0, false
	nd_go(func() {
		rw.Lock()
		writers++
		if readers != 0 {
			bad = true
		}
		writers--
		rw.Unlock()
	})
	nd_go(func() {
		if rw.TryRLock() {
			readers++
			if writers != 0 {
				bad = true
			}
			readers--
			rw.RUnlock()
		}
		if rw.TryLock() {
			writers++
			if writers != 1 || readers != 0 {
				bad = true
			}
			writers--
			rw.Unlock()
		}
	})
	dl := nd_join()
	nd_assert(!dl, "C11.sync.rwtry.deadlock")
	nd_assert(!bad, "C11.sync.rwtry.exclusion")
	nd_reach("C11.sync.rwtry")
}

// WaitGroup used for two rounds: Wait of round one returns, then a second round
func H_sync_waitgroup_reuse() {
	var wg sync.WaitGroup
	a, b, early := false, false, false
	wg.Add(1)
	nd_go(func() { a = true; wg.Done() })
	nd_go(func() {
		wg.Wait()
		if !a {
			early = true
		}
		wg.Add(1)
		nd_go(func() { b = true; wg.Done() })
		wg.Wait()
		if !b {
			early = true
		}
	})
	dl := nd_join()
	nd_assert(!dl, "C11.sync.wgreuse.deadlock")
	nd_assert(!early && a && b, "C11.sync.wgreuse.afterzero")
	nd_reach("C11.sync.wgreuse")
}
