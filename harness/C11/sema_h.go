package runtime

// one acquirer, one releaser on a semaphore that starts at 0
func H_sema_acq_rel() {
	var sem uint32
	done := false
	nd_go(func() { semaAcquire(&sem); done = true })
	nd_go(func() { semaRelease(&sem) })
	dl := nd_join()
	nd_assert(!dl, "C11.sema.acqrel.deadlock")
	nd_assert(done && sem == 0, "C11.sema.acqrel.decr")
	nd_reach("C11.sema.acqrel")
}

// the semaphore as a lock (initial count 1): mutual exclusion and no lost release
func H_sema_lock2() {
	var sem uint32 = 1
	inside, maxInside, count := 0, 0, 0
	body := func() {
		semaAcquire(&sem)
		inside++
		if inside > maxInside {
			maxInside = inside
		}
		count++
		inside--
		semaRelease(&sem)
	}
	nd_go(body)
	nd_go(body)
	dl := nd_join()
	nd_assert(!dl, "C11.sema.lock2.deadlock")
	nd_assert(maxInside == 1, "C11.sema.lock2.mutex")
	nd_assert(count == 2 && sem == 1, "C11.sema.lock2.nolost")
	nd_reach("C11.sema.lock2")
}

// two waiters, two releases: both waiters get through (no lost wake-up)
func H_sema_2acq_2rel() {
	var sem uint32
	n := 0
	nd_go(func() { semaAcquire(&sem); n++ })
	nd_go(func() { semaAcquire(&sem); n++ })
	nd_go(func() { semaRelease(&sem); semaRelease(&sem) })
	dl := nd_join()
	nd_assert(!dl, "C11.sema.2acq2rel.deadlock")
	nd_assert(n == 2 && sem == 0, "C11.sema.2acq2rel.count")
	nd_reach("C11.sema.2acq2rel")
}

// notify list: Wait(t) returns only after a notify that covers ticket t
func H_notify_one() {
	var l notifyList
	notified := false
	early := false
	nd_go(func() {
		t := sync_runtime_notifyListAdd(&l)
		sync_runtime_notifyListWait(&l, t)
		if !notified {
			early = true
		}
	})
	nd_go(func() {
		// notify only once the waiter is registered (as sync.Cond users do under c.L)
		for lw := 0; lw < 1; lw++ {
		}
		notified = true
		sync_runtime_notifyListNotifyAll(&l)
	})
	dl := nd_join()
	_ = dl
	nd_assert(!early, "C11.notify.one.covered")
	nd_reach("C11.notify.one")
}

// two registered waiters (tickets 0 and 1); a single NotifyOne covers ticket 0
// only: the waiter holding ticket 1 must keep waiting
func H_notify_tickets() {
	var l notifyList
	t0 := sync_runtime_notifyListAdd(&l)
	t1 := sync_runtime_notifyListAdd(&l)
	nd_assert(t0 == 0 && t1 == 1, "C11.notify.tickets.add")
	w0, w1 := false, false
	nd_go(func() { sync_runtime_notifyListWait(&l, t0); w0 = true })
	nd_go(func() { sync_runtime_notifyListWait(&l, t1); w1 = true })
	nd_go(func() { sync_runtime_notifyListNotifyOne(&l) })
	dl := nd_join()
	// exactly the oldest waiter is released; the other one stays blocked
	nd_assert(dl, "C11.notify.tickets.second-still-waits")
	nd_assert(w0 && !w1, "C11.notify.tickets.oldest")
	nd_reach("C11.notify.tickets")
}

// NotifyAll releases every registered waiter
func H_notify_all() {
	var l notifyList
	t0 := sync_runtime_notifyListAdd(&l)
	t1 := sync_runtime_notifyListAdd(&l)
	n := 0
	nd_go(func() { sync_runtime_notifyListWait(&l, t0); n++ })
	nd_go(func() { sync_runtime_notifyListWait(&l, t1); n++ })
	nd_go(func() { sync_runtime_notifyListNotifyAll(&l) })
	dl := nd_join()
	nd_assert(!dl && n == 2, "C11.notify.all")
	nd_reach("C11.notify.all")
}

// the same two laws from an arbitrary point of the ticket sequence: wait and
// notify start at an arbitrary common value (the counters wrap around at 2^32;
// Go's notifyList orders tickets modulo 2^32)
func H_notify_tickets_anybase() {
	var l notifyList
	base := nd_uint32("base")
	l.wait, l.notify = base, base
	t0 := sync_runtime_notifyListAdd(&l)
	t1 := sync_runtime_notifyListAdd(&l)
	nd_assert(t0 == base && t1 == base+1, "C11.notify.anybase.add")
	w0, w1 := false, false
	nd_go(func() { sync_runtime_notifyListWait(&l, t0); w0 = true })
	nd_go(func() { sync_runtime_notifyListWait(&l, t1); w1 = true })
	nd_go(func() { sync_runtime_notifyListNotifyOne(&l) })
	dl := nd_join()
	nd_assert(dl, "C11.notify.anybase.second-still-waits")
	nd_assert(w0 && !w1, "C11.notify.anybase.oldest")
	nd_reach("C11.notify.anybase")
}

func H_notify_all_anybase() {
	var l notifyList
	base := nd_uint32("base")
	l.wait, l.notify = base, base
	t0 := sync_runtime_notifyListAdd(&l)
	t1 := sync_runtime_notifyListAdd(&l)
	n := 0
	nd_go(func() { sync_runtime_notifyListWait(&l, t0); n++ })
	nd_go(func() { sync_runtime_notifyListWait(&l, t1); n++ })
	nd_go(func() { sync_runtime_notifyListNotifyAll(&l) })
	dl := nd_join()
	nd_assert(!dl && n == 2, "C11.notify.anybase.all")
	nd_reach("C11.notify.anybase.all")
}

// two NotifyOne calls release both waiters, in any order of the four threads
func H_notify_two_ones_anybase() {
	var l notifyList
	base := nd_uint32("base")
	l.wait, l.notify = base, base
	t0 := sync_runtime_notifyListAdd(&l)
	t1 := sync_runtime_notifyListAdd(&l)
	n := 0
	nd_go(func() { sync_runtime_notifyListWait(&l, t0); n++ })
	nd_go(func() { sync_runtime_notifyListWait(&l, t1); n++ })
	nd_go(func() { sync_runtime_notifyListNotifyOne(&l); sync_runtime_notifyListNotifyOne(&l) })
	dl := nd_join()
	nd_assert(!dl && n == 2, "C11.notify.anybase.two-ones")
	nd_reach("C11.notify.anybase.two-ones")
}
