package sync

// Native-replay stand-in for GOROOT/src/sync/runtime.go: the bodiless
// runtime_* functions of package sync are routed, through function variables
// the sliced llgo runtime package fills in, to llgo's own implementations
// (the functions that carry //go:linkname ... sync.runtime_*).

import "unsafe"

var Hooks struct {
	Semacquire, SemacquireWaitGroup                          func(*uint32)
	SemacquireMutex, SemacquireRWMutexR, SemacquireRWMutex, Semrelease func(*uint32, bool, int)
	NotifyListAdd                                            func(unsafe.Pointer) uint32
	NotifyListWait                                           func(unsafe.Pointer, uint32)
	NotifyListNotifyAll, NotifyListNotifyOne                 func(unsafe.Pointer)
	CanSpin                                                  func(int) bool
	DoSpin                                                   func()
	Nanotime                                                 func() int64
}

func runtime_Semacquire(s *uint32)                                    { Hooks.Semacquire(s) }
func runtime_SemacquireWaitGroup(s *uint32)                           { Hooks.SemacquireWaitGroup(s) }
func runtime_SemacquireMutex(s *uint32, lifo bool, skipframes int)    { Hooks.SemacquireMutex(s, lifo, skipframes) }
func runtime_SemacquireRWMutexR(s *uint32, lifo bool, skipframes int) { Hooks.SemacquireRWMutexR(s, lifo, skipframes) }
func runtime_SemacquireRWMutex(s *uint32, lifo bool, skipframes int)  { Hooks.SemacquireRWMutex(s, lifo, skipframes) }
func runtime_Semrelease(s *uint32, handoff bool, skipframes int)      { Hooks.Semrelease(s, handoff, skipframes) }
func runtime_notifyListAdd(l *notifyList) uint32                      { return Hooks.NotifyListAdd(unsafe.Pointer(l)) }
func runtime_notifyListWait(l *notifyList, t uint32)                  { Hooks.NotifyListWait(unsafe.Pointer(l), t) }
func runtime_notifyListNotifyAll(l *notifyList)                       { Hooks.NotifyListNotifyAll(unsafe.Pointer(l)) }
func runtime_notifyListNotifyOne(l *notifyList)                       { Hooks.NotifyListNotifyOne(unsafe.Pointer(l)) }
func runtime_canSpin(i int) bool                                      { return Hooks.CanSpin(i) }
func runtime_doSpin()                                                 { Hooks.DoSpin() }
func runtime_nanotime() int64                                         { return Hooks.Nanotime() }

func throw(s string) { panic("throw: " + s) }
func fatal(s string) { panic("fatal: " + s) }
