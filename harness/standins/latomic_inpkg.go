package atomic

// Native-replay bodies for llgo's bodiless sync/atomic entry points (compiler
// intrinsics in llgo): Go's own sync/atomic plus a scheduling point each.

import (
	sa "sync/atomic"
	"unsafe"

	psync "github.com/goplus/llgo/runtime/internal/zzstand/psync"
)

func LoadPointer(p *unsafe.Pointer) unsafe.Pointer     { psync.AtomicPoint(); defer psync.AtomicPoint(); return sa.LoadPointer(p) }
func StorePointer(p *unsafe.Pointer, v unsafe.Pointer) { psync.AtomicPoint(); defer psync.AtomicPoint(); sa.StorePointer(p, v) }
func SwapPointer(p *unsafe.Pointer, v unsafe.Pointer) unsafe.Pointer {
	psync.AtomicPoint()
	defer psync.AtomicPoint()
	return sa.SwapPointer(p, v)
}
func CompareAndSwapPointer(p *unsafe.Pointer, o, n unsafe.Pointer) bool {
	psync.AtomicPoint()
	defer psync.AtomicPoint()
	return sa.CompareAndSwapPointer(p, o, n)
}
