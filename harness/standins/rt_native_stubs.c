/* C stand-ins used only by the native (R3) replay: the Boehm collector and a
 * few C wrappers of llgo's runtime that are not built in this sandbox. */
#include <stdio.h>
#include <stdlib.h>
#include <string.h>
#include <stdint.h>
#include <pthread.h>

void *GC_malloc(size_t n) { return calloc(1, n + 16); }
void *GC_malloc_atomic(size_t n) { return calloc(1, n + 16); }
void *GC_realloc(void *p, size_t n) { return realloc(p, n + 16); }
void GC_free(void *p) { (void)p; }
void GC_init(void) {}
void GC_add_roots(void *a, void *b) { (void)a; (void)b; }
void GC_remove_roots(void *a, void *b) { (void)a; (void)b; }
void GC_register_finalizer(void *o, void *f, void *cd, void *of, void *ocd) { (void)o; (void)f; (void)cd; (void)of; (void)ocd; }
int GC_pthread_create(pthread_t *t, const pthread_attr_t *a, void *(*f)(void *), void *arg) { return pthread_create(t, a, f, arg); }
float llgoToFloat32(int32_t v) { float f; memcpy(&f, &v, 4); return f; }
double llgoToFloat64(int64_t v) { double f; memcpy(&f, &v, 8); return f; }
int32_t llgoFromFloat32(float f) { int32_t v; memcpy(&v, &f, 4); return v; }
int64_t llgoFromFloat64(double f) { int64_t v; memcpy(&v, &f, 8); return v; }
void trace(long long x) { printf("TRACE %lld\n", x); fflush(stdout); }
/* clite/debug C wrappers (stack traces of escaping panics are not part of any comparison) */
void *llgo_address(void) { return 0; }
int llgo_addrinfo(void *addr, void *info) { (void)addr; (void)info; return 0; }
void llgo_stacktrace(int skip, void *ctx, void *fn) { (void)skip; (void)ctx; (void)fn; }
