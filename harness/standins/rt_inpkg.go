package runtime

// Native-replay bodies for the C-linked leaves of llgo's runtime package.

func fastrand() uint32 { return 0x2545F491 }
func srand(uint32)     {}
