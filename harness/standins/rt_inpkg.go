package runtime

// Native-replay bodies for the C-linked leaves of llgo's runtime package.

func fastrand() uint32 {
	if len(nd_randq) > 0 {
		v := nd_randq[0]
		nd_randq = nd_randq[1:]
		return v
	}
	return 0x2545F491
}
func srand(uint32)     {}
