// Package sync is the native-replay stand-in for llgo's pthread/sync binding:
// mutexes and condition variables run under a deterministic scheduler that
// mirrors symx's symbolic scheduler decision for decision and takes each
// decision ("sched", "sched#1", ..., "sigpick", ...) from the solver's model.
package sync

import (
	"encoding/json"
	"fmt"
	"os"
	"strconv"
	"unsafe"
)

type Mutex struct{ _ [40]byte }
type Cond struct{ _ [48]byte }
type MutexAttr struct{ _ [4]byte }
type CondAttr struct{ _ [4]byte }
type Once struct{ done bool }

func (o *Once) Do(f func()) int32 {
	if !o.done {
		o.done = true
		f()
	}
	return 0
}

type thread struct {
	id        int
	wake      chan struct{}
	done      bool
	blockedOn uintptr
	waitCond  uintptr
	signalled bool
	joining   bool
	spurious  int
}

var (
	threads   = []*thread{{id: 0, wake: make(chan struct{}, 1)}}
	cur       int
	owner     = map[uintptr]int{}
	model     map[string]uint64
	seen      = map[string]int{}
	preempt   = -1
	preempts  int
	spurBound int
	deadlock  bool
	steps     int
)

func init() {
	model = map[string]uint64{}
	if f := os.Getenv("SYMX_MODEL"); f != "" {
		if b, err := os.ReadFile(f); err == nil {
			json.Unmarshal(b, &model)
		}
	}
	if v, err := strconv.Atoi(os.Getenv("SYMX_PREEMPT")); err == nil {
		preempt = v
	}
	if v, err := strconv.Atoi(os.Getenv("SYMX_SPURIOUS")); err == nil {
		spurBound = v
	}
}

func ndBool(name string) bool {
	n := seen[name]
	seen[name] = n + 1
	if n > 0 {
		name = fmt.Sprintf("%s#%d", name, n)
	}
	return model[name] != 0
}

func enabled() (ids []int, spur []bool) {
	for _, t := range threads {
		if t.done {
			continue
		}
		switch {
		case t.joining:
			all := true
			for _, o := range threads {
				if o != t && !o.done {
					all = false
				}
			}
			if all {
				ids, spur = append(ids, t.id), append(spur, false)
			}
		case t.waitCond != 0:
			if t.signalled {
				ids, spur = append(ids, t.id), append(spur, false)
			} else if t.spurious < spurBound {
				ids, spur = append(ids, t.id), append(spur, true)
			}
		case t.blockedOn != 0:
			if _, held := owner[t.blockedOn]; !held {
				ids, spur = append(ids, t.id), append(spur, false)
			}
		default:
			ids, spur = append(ids, t.id), append(spur, false)
		}
	}
	return
}

func choose() (int, bool) {
	ids, spur := enabled()
	if len(ids) == 0 {
		return -1, false
	}
	if preempt >= 0 {
		for k, id := range ids {
			if id == cur && !spur[k] && preempts >= preempt {
				return id, false
			}
		}
	}
	curEnabled := false
	for k, id := range ids {
		if id == cur && !spur[k] {
			curEnabled = true
		}
	}
	id, sp := ids[len(ids)-1], spur[len(ids)-1]
	for k := 0; k < len(ids)-1; k++ {
		if ndBool("sched") {
			id, sp = ids[k], spur[k]
			break
		}
	}
	if curEnabled && id != cur {
		preempts++
	}
	return id, sp
}

func switchAway(t *thread) {
	next, sp := choose()
	if next < 0 {
		deadlock = true
		main := threads[0]
		if main.done {
			return
		}
		next = 0
		main.joining, main.blockedOn, main.waitCond = false, 0, 0
	}
	nt := threads[next]
	if sp {
		nt.spurious++
	}
	if nt.waitCond != 0 {
		nt.waitCond, nt.signalled = 0, false
	}
	if nt == t {
		return
	}
	cur = next
	nt.wake <- struct{}{}
	if t.done {
		return
	}
	<-t.wake
}

func yield() {
	steps++
	if steps > 100000 {
		panic("ND-REPLAY: scheduling bound exceeded")
	}
	switchAway(threads[cur])
}

func (m *Mutex) Init(attr *MutexAttr) int32 { return 0 }
func (m *Mutex) Destroy()                  {}

func (m *Mutex) Lock() {
	t := threads[cur]
	a := uintptr(unsafe.Pointer(m))
	for {
		t.blockedOn = a
		yield()
		if _, held := owner[a]; !held {
			owner[a] = t.id
			t.blockedOn = 0
			return
		}
	}
}

func (m *Mutex) Unlock() { delete(owner, uintptr(unsafe.Pointer(m))) }

func (c *Cond) Init(attr *CondAttr) int32 { return 0 }
func (c *Cond) Destroy()                 {}

func (c *Cond) Wait(m *Mutex) int32 {
	t := threads[cur]
	m.Unlock()
	t.waitCond, t.signalled = uintptr(unsafe.Pointer(c)), false
	yield()
	m.Lock()
	return 0
}

func signal(c uintptr, all bool) {
	var ws []*thread
	for _, t := range threads {
		if !t.done && t.waitCond == c && !t.signalled {
			ws = append(ws, t)
		}
	}
	if len(ws) == 0 {
		return
	}
	if all {
		for _, w := range ws {
			w.signalled = true
		}
		return
	}
	for k := 0; k < len(ws)-1; k++ {
		if ndBool("sigpick") {
			ws[k].signalled = true
			return
		}
	}
	ws[len(ws)-1].signalled = true
}

func (c *Cond) Signal() int32    { signal(uintptr(unsafe.Pointer(c)), false); return 0 }
func (c *Cond) Broadcast() int32 { signal(uintptr(unsafe.Pointer(c)), true); return 0 }

// Go starts a scheduled thread (the harness primitive nd_go).
func Go(f func()) {
	t := &thread{id: len(threads), wake: make(chan struct{}, 1)}
	threads = append(threads, t)
	go func() {
		<-t.wake
		f()
		t.done = true
		switchAway(t)
	}()
}

// Join blocks the main thread until all others are done; true = deadlock.
func Join() bool {
	t := threads[cur]
	t.joining = true
	yield()
	t.joining = false
	return deadlock
}

// AtomicPoint is the scheduling point of an atomic operation.
func AtomicPoint() {
	if len(threads) > 1 {
		yield()
	}
}
