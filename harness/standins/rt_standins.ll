; Hand-written stand-ins (R3 replay only) for the llgo runtime entry points whose
; results are first-class aggregates (returned in registers by LLVM, which a C
; function cannot reproduce).  Semantics: the Go specification's.
%Slice = type { ptr, i64, i64 }
%String = type { ptr, i64 }

declare void @standin_panic(i32)
declare ptr @calloc(i64, i64)

define %Slice @"github.com/goplus/llgo/runtime/internal/runtime.NewSlice3"(ptr %base, i64 %et, i64 %cap, i64 %i, i64 %j, i64 %k) {
entry:
  %k0 = icmp slt i64 %k, 0
  %k1 = icmp sgt i64 %k, %cap
  %j0 = icmp slt i64 %j, 0
  %j1 = icmp sgt i64 %j, %k
  %i0 = icmp slt i64 %i, 0
  %i1 = icmp sgt i64 %i, %j
  %b1 = or i1 %k0, %k1
  %b2 = or i1 %j0, %j1
  %b3 = or i1 %i0, %i1
  %b4 = or i1 %b1, %b2
  %bad = or i1 %b4, %b3
  br i1 %bad, label %panic, label %ok
panic:
  call void @standin_panic(i32 1)
  unreachable
ok:
  %len = sub i64 %j, %i
  %ncap = sub i64 %k, %i
  %off = mul i64 %i, %et
  %p = getelementptr i8, ptr %base, i64 %off
  %has = icmp sgt i64 %ncap, 0
  %data = select i1 %has, ptr %p, ptr %base
  %s0 = insertvalue %Slice undef, ptr %data, 0
  %s1 = insertvalue %Slice %s0, i64 %len, 1
  %s2 = insertvalue %Slice %s1, i64 %ncap, 2
  ret %Slice %s2
}

define %String @"github.com/goplus/llgo/runtime/internal/runtime.StringSlice"(%String %s, i64 %i, i64 %j) {
entry:
  %base = extractvalue %String %s, 0
  %len = extractvalue %String %s, 1
  %i0 = icmp slt i64 %i, 0
  %j0 = icmp slt i64 %j, %i
  %j1 = icmp sgt i64 %j, %len
  %b1 = or i1 %i0, %j0
  %bad = or i1 %b1, %j1
  br i1 %bad, label %panic, label %ok
panic:
  call void @standin_panic(i32 1)
  unreachable
ok:
  %n = sub i64 %j, %i
  %p = getelementptr i8, ptr %base, i64 %i
  %r0 = insertvalue %String undef, ptr %p, 0
  %r1 = insertvalue %String %r0, i64 %n, 1
  ret %String %r1
}

define %Slice @"github.com/goplus/llgo/runtime/internal/runtime.MakeSlice"(i64 %len, i64 %cap, i64 %et) {
entry:
  %l0 = icmp slt i64 %len, 0
  %l1 = icmp sgt i64 %len, %cap
  %z = icmp eq i64 %et, 0
  %d = select i1 %z, i64 1, i64 %et
  %lim = udiv i64 281474976710656, %d
  %big = icmp ugt i64 %cap, %lim
  %big2 = select i1 %z, i1 false, i1 %big
  %b1 = or i1 %l0, %l1
  %bad = or i1 %b1, %big2
  br i1 %bad, label %panic, label %ok
panic:
  call void @standin_panic(i32 1)
  unreachable
ok:
  %n = add i64 %cap, 1
  %p = call ptr @calloc(i64 %n, i64 %d)
  %s0 = insertvalue %Slice undef, ptr %p, 0
  %s1 = insertvalue %Slice %s0, i64 %len, 1
  %s2 = insertvalue %Slice %s1, i64 %cap, 2
  ret %Slice %s2
}
