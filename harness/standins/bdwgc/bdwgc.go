// Package bdwgc is the native-replay stand-in for the Boehm GC binding.
package bdwgc

import "unsafe"

// Malloc returns poison-filled (not zeroed) memory so that code relying on
// zero-initialisation of GC_malloc'ed-then-unzeroed memory is caught.
func Malloc(size uintptr) unsafe.Pointer {
	b := make([]byte, size+1)
	for i := range b {
		b[i] = 0xA5
	}
	return unsafe.Pointer(&b[0])
}
