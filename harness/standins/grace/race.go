// Package race is the replay stand-in for internal/race (race detector off).
package race

import "unsafe"

const Enabled = false

func Acquire(addr unsafe.Pointer)                 {}
func Release(addr unsafe.Pointer)                 {}
func ReleaseMerge(addr unsafe.Pointer)            {}
func Disable()                                    {}
func Enable()                                     {}
func Read(addr unsafe.Pointer)                    {}
func Write(addr unsafe.Pointer)                   {}
func ReadRange(addr unsafe.Pointer, len int)      {}
func WriteRange(addr unsafe.Pointer, len int)     {}
func Errors() int                                 { return 0 }
