/* Declaration-only stand-in so that llgo's build pipeline gets past
 * clite/debug/_wrap/debug.c in this sandbox (libunwind is not installed).
 * Nothing compiled against it is ever executed by the checks. */
#ifndef VERIF_FAKE_LIBUNWIND_H
#define VERIF_FAKE_LIBUNWIND_H
typedef unsigned long unw_word_t;
typedef struct { unw_word_t opaque[128]; } unw_cursor_t;
typedef struct { unw_word_t opaque[128]; } unw_context_t;
#define UNW_REG_IP 16
#define UNW_REG_SP 7
int unw_getcontext(unw_context_t *);
int unw_init_local(unw_cursor_t *, unw_context_t *);
int unw_step(unw_cursor_t *);
int unw_get_reg(unw_cursor_t *, int, unw_word_t *);
int unw_get_proc_name(unw_cursor_t *, char *, unsigned long, unw_word_t *);
#endif
