// Package c is the native-replay stand-in for llgo's clite package: the C
// helpers are implemented in Go; Memcpy panics on overlapping ranges (C UB).
package c

import "unsafe"

type (
	Char    = int8
	Int     = int32
	Uint    = uint32
	Long    = int64
	Ulong   = uint64
	Pointer = unsafe.Pointer
)

type integer interface {
	~int | ~uint | ~uintptr | ~int32 | ~uint32 | ~int64 | ~uint64
}

func Advance[PtrT any, I integer](ptr PtrT, offset I) PtrT {
	var sz uintptr = 1
	p := any(ptr)
	switch v := p.(type) {
	case unsafe.Pointer:
		r := unsafe.Add(v, int(offset))
		return any(r).(PtrT)
	case *int8:
		r := (*int8)(unsafe.Add(unsafe.Pointer(v), int(offset)))
		return any(r).(PtrT)
	case *byte:
		r := (*byte)(unsafe.Add(unsafe.Pointer(v), int(offset)))
		return any(r).(PtrT)
	}
	_ = sz
	panic("standin Advance: unsupported pointer type")
}

func bytesOf(p unsafe.Pointer, n uintptr) []byte { return unsafe.Slice((*byte)(p), n) }

func Memcpy(dst, src Pointer, n uintptr) Pointer {
	if n == 0 {
		return dst
	}
	d, s := uintptr(dst), uintptr(src)
	if (d <= s && s < d+n) || (s <= d && d < s+n) {
		panic("ND-UB memcpy with overlapping source and destination")
	}
	copy(bytesOf(dst, n), bytesOf(src, n))
	return dst
}

func Memmove(dst, src Pointer, n uintptr) Pointer {
	if n == 0 {
		return dst
	}
	copy(bytesOf(dst, n), bytesOf(src, n))
	return dst
}

func Memset(s Pointer, c Int, n uintptr) Pointer {
	if n == 0 {
		return s
	}
	b := bytesOf(s, n)
	for i := range b {
		b[i] = byte(c)
	}
	return s
}

// Malloc returns memory filled with a poison pattern (never zero).
func Malloc(size uintptr) Pointer {
	b := make([]byte, size+1)
	for i := range b {
		b[i] = 0xA5
	}
	return unsafe.Pointer(&b[0])
}

func Free(Pointer) {}

func Strlen(s *Char) uintptr {
	n := uintptr(0)
	for *(*byte)(unsafe.Add(unsafe.Pointer(s), n)) != 0 {
		n++
	}
	return n
}
