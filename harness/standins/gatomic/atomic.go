// Package atomic is the replay stand-in for sync/atomic as used by GOROOT's
// sync package: Go's own operations, each bracketed by the two scheduling
// points the symbolic scheduler gives every atomic operation.
package atomic

import (
	sa "sync/atomic"

	psync "github.com/goplus/llgo/runtime/internal/zzstand/psync"
)

func pt() { psync.AtomicPoint() }

func CompareAndSwapInt32(p *int32, o, n int32) bool       { pt(); defer pt(); return sa.CompareAndSwapInt32(p, o, n) }
func AddInt32(p *int32, d int32) int32                    { pt(); defer pt(); return sa.AddInt32(p, d) }
func LoadInt32(p *int32) int32                            { pt(); defer pt(); return sa.LoadInt32(p) }
func StoreInt32(p *int32, v int32)                        { pt(); defer pt(); sa.StoreInt32(p, v) }
func CompareAndSwapUint32(p *uint32, o, n uint32) bool    { pt(); defer pt(); return sa.CompareAndSwapUint32(p, o, n) }
func AddUint32(p *uint32, d uint32) uint32                { pt(); defer pt(); return sa.AddUint32(p, d) }
func LoadUint32(p *uint32) uint32                         { pt(); defer pt(); return sa.LoadUint32(p) }
func StoreUint32(p *uint32, v uint32)                     { pt(); defer pt(); sa.StoreUint32(p, v) }
func CompareAndSwapUint64(p *uint64, o, n uint64) bool    { pt(); defer pt(); return sa.CompareAndSwapUint64(p, o, n) }
func AddUint64(p *uint64, d uint64) uint64                { pt(); defer pt(); return sa.AddUint64(p, d) }
func LoadUint64(p *uint64) uint64                         { pt(); defer pt(); return sa.LoadUint64(p) }
func StoreUint64(p *uint64, v uint64)                     { pt(); defer pt(); sa.StoreUint64(p, v) }
func CompareAndSwapUintptr(p *uintptr, o, n uintptr) bool { pt(); defer pt(); return sa.CompareAndSwapUintptr(p, o, n) }
func LoadUintptr(p *uintptr) uintptr                      { pt(); defer pt(); return sa.LoadUintptr(p) }

type Int32 struct{ v int32 }

func (x *Int32) Load() int32                       { return LoadInt32(&x.v) }
func (x *Int32) Store(v int32)                     { StoreInt32(&x.v, v) }
func (x *Int32) Add(d int32) int32                 { return AddInt32(&x.v, d) }
func (x *Int32) CompareAndSwap(o, n int32) bool    { return CompareAndSwapInt32(&x.v, o, n) }

type Uint32 struct{ v uint32 }

func (x *Uint32) Load() uint32                     { return LoadUint32(&x.v) }
func (x *Uint32) Store(v uint32)                   { StoreUint32(&x.v, v) }
func (x *Uint32) Add(d uint32) uint32              { return AddUint32(&x.v, d) }
func (x *Uint32) CompareAndSwap(o, n uint32) bool  { return CompareAndSwapUint32(&x.v, o, n) }

type Uint64 struct{ v uint64 }

func (x *Uint64) Load() uint64                     { return LoadUint64(&x.v) }
func (x *Uint64) Store(v uint64)                   { StoreUint64(&x.v, v) }
func (x *Uint64) Add(d uint64) uint64              { return AddUint64(&x.v, d) }
func (x *Uint64) CompareAndSwap(o, n uint64) bool  { return CompareAndSwapUint64(&x.v, o, n) }
