// Package atomic is the native-replay stand-in for llgo's lib/sync/atomic: the
// operations are Go's own sync/atomic, each one a scheduling point of the
// stand-in scheduler.
package atomic

import (
	sa "sync/atomic"
	"unsafe"

	psync "github.com/goplus/llgo/runtime/internal/zzstand/psync"
)

func LoadUint32(p *uint32) uint32               { psync.AtomicPoint(); defer psync.AtomicPoint(); return sa.LoadUint32(p) }
func StoreUint32(p *uint32, v uint32)           { psync.AtomicPoint(); defer psync.AtomicPoint(); sa.StoreUint32(p, v) }
func AddUint32(p *uint32, d uint32) uint32      { psync.AtomicPoint(); defer psync.AtomicPoint(); return sa.AddUint32(p, d) }
func SwapUint32(p *uint32, v uint32) uint32     { psync.AtomicPoint(); defer psync.AtomicPoint(); return sa.SwapUint32(p, v) }
func CompareAndSwapUint32(p *uint32, o, n uint32) bool {
	psync.AtomicPoint()
	defer psync.AtomicPoint()
	return sa.CompareAndSwapUint32(p, o, n)
}
func LoadInt32(p *int32) int32                 { psync.AtomicPoint(); defer psync.AtomicPoint(); return sa.LoadInt32(p) }
func StoreInt32(p *int32, v int32)             { psync.AtomicPoint(); defer psync.AtomicPoint(); sa.StoreInt32(p, v) }
func AddInt32(p *int32, d int32) int32         { psync.AtomicPoint(); defer psync.AtomicPoint(); return sa.AddInt32(p, d) }
func CompareAndSwapInt32(p *int32, o, n int32) bool {
	psync.AtomicPoint()
	defer psync.AtomicPoint()
	return sa.CompareAndSwapInt32(p, o, n)
}
func LoadPointer(p *unsafe.Pointer) unsafe.Pointer     { psync.AtomicPoint(); defer psync.AtomicPoint(); return sa.LoadPointer(p) }
func StorePointer(p *unsafe.Pointer, v unsafe.Pointer) { psync.AtomicPoint(); defer psync.AtomicPoint(); sa.StorePointer(p, v) }
func SwapPointer(p *unsafe.Pointer, v unsafe.Pointer) unsafe.Pointer {
	psync.AtomicPoint()
	defer psync.AtomicPoint()
	return sa.SwapPointer(p, v)
}
func CompareAndSwapPointer(p *unsafe.Pointer, o, n unsafe.Pointer) bool {
	psync.AtomicPoint()
	defer psync.AtomicPoint()
	return sa.CompareAndSwapPointer(p, o, n)
}
