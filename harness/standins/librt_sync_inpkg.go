package runtime

// Native replay of the C11 sync harnesses: GOROOT's sync sources (stand-in
// package gosync) call back into this package's own functions - the ones llgo
// links in for sync.runtime_* - and the clock follows the model.

import (
	"unsafe"

	gosync "github.com/goplus/llgo/runtime/internal/zzstand/gosync"
)

func init() {
	gosync.Hooks.Semacquire = sync_runtime_Semacquire
	gosync.Hooks.SemacquireWaitGroup = func(a *uint32) { sync_runtime_SemacquireWaitGroup(a, false) }
	gosync.Hooks.SemacquireMutex = sync_runtime_SemacquireMutex
	gosync.Hooks.SemacquireRWMutexR = sync_runtime_SemacquireRWMutexR
	gosync.Hooks.SemacquireRWMutex = sync_runtime_SemacquireRWMutex
	gosync.Hooks.Semrelease = sync_runtime_Semrelease
	gosync.Hooks.NotifyListAdd = func(l unsafe.Pointer) uint32 { return sync_runtime_notifyListAdd((*notifyList)(l)) }
	gosync.Hooks.NotifyListWait = func(l unsafe.Pointer, t uint32) { sync_runtime_notifyListWait((*notifyList)(l), t) }
	gosync.Hooks.NotifyListNotifyAll = func(l unsafe.Pointer) { sync_runtime_notifyListNotifyAll((*notifyList)(l)) }
	gosync.Hooks.NotifyListNotifyOne = func(l unsafe.Pointer) { sync_runtime_notifyListNotifyOne((*notifyList)(l)) }
	gosync.Hooks.CanSpin = sync_runtime_canSpin
	gosync.Hooks.DoSpin = sync_runtime_doSpin
	gosync.Hooks.Nanotime = func() int64 { return nd_int64("nanotime") }
}
