package targets

// Inheritance graphs over the node names below; the loader's cache is
// pre-populated so that no file I/O happens for existing names (a missing
// name falls through to os.ReadFile, which is stubbed to fail).

var nodeNames = [4]string{"na", "nb", "nc", "nd"}

const missingName = "zz-missing"

// ndGraph fills the loader cache with n nodes whose Inherits lists are
// symbolic: each node has 0..2 parents, each parent any node (self loops,
// cycles, diamonds) or a missing name.
func ndGraph(l *Loader, n int, allowMissing, symPresence bool) [4][]int {
	var parents [4][]int
	for i := 0; i < n; i++ {
		raw := &RawConfig{}
		raw.Name = nodeNames[i]
		// scalar: present or absent; list: 0..1 own entries with spare capacity
		if !symPresence || nd_bool("scalar") {
			raw.LLVMTarget = "t-" + nodeNames[i]
		}
		raw.BuildTags = make([]string, 0, 4)
		if !symPresence || nd_bool("list") {
			raw.BuildTags = append(raw.BuildTags, "tag-"+nodeNames[i])
		}
		np := nd_int("np")
		nd_assume(np >= 0 && np <= 2)
		for k := 0; k < np; k++ {
			p := nd_int("p")
			if allowMissing {
				nd_assume(p >= 0 && p <= n)
			} else {
				nd_assume(p >= 0 && p < n)
			}
			if p == n {
				raw.Inherits = append(raw.Inherits, missingName)
				parents[i] = append(parents[i], -1)
			} else {
				// concretise the index so that names stay concrete
				for q := 0; q < n; q++ {
					if p == q {
						raw.Inherits = append(raw.Inherits, nodeNames[q])
						parents[i] = append(parents[i], q)
					}
				}
			}
		}
		l.cache[nodeNames[i]] = raw
	}
	return parents
}

type refCfg struct {
	scalar string
	list   []string
	err    bool
	cyclic bool
}

// ref is the independent reference: scalar from the nearest description that
// defines it (own, else last parent that yields one), list = parents' lists in
// inheritance order followed by the node's own.
func ref(l *Loader, parents *[4][]int, i int, onPath *[4]bool) refCfg {
	if onPath[i] {
		return refCfg{err: true, cyclic: true}
	}
	raw := l.cache[nodeNames[i]]
	onPath[i] = true
	var r refCfg
	for _, p := range parents[i] {
		if p < 0 {
			onPath[i] = false
			return refCfg{err: true}
		}
		pr := ref(l, parents, p, onPath)
		if pr.err {
			onPath[i] = false
			return pr
		}
		if pr.scalar != "" {
			r.scalar = pr.scalar
		}
		r.list = append(r.list, pr.list...)
	}
	onPath[i] = false
	if raw.LLVMTarget != "" {
		r.scalar = raw.LLVMTarget
	}
	r.list = append(r.list, raw.BuildTags...)
	return r
}

func sameStrs(a, b []string) bool {
	if len(a) != len(b) {
		return false
	}
	ok := true
	for i := range a {
		if a[i] != b[i] {
			ok = false
		}
	}
	return ok
}

func inheritCheck(n int, allowMissing, symPresence bool) {
	l := NewLoader("/nonexistent-targets-dir")
	parents := ndGraph(l, n, allowMissing, symPresence)
	// a history of loads through ONE loader: every node, last to first; results
	// are verified only after all loads (a later load must not disturb an
	// earlier result or the cached descriptions)
	var got [4]*Config
	var gerr [4]error
	var want [4]refCfg
	for i := n - 1; i >= 0; i-- {
		var onPath [4]bool
		want[i] = ref(l, &parents, i, &onPath)
		if want[i].cyclic {
			// cyclic description: must end with an error, not hang or crash
			k := i
			crashed := nd_try(func() { got[k], gerr[k] = l.Load(nodeNames[k]) })
			nd_assert(!crashed, "C18.inherit.cycle-error")
			continue
		}
		got[i], gerr[i] = l.Load(nodeNames[i])
	}
	for i := 0; i < n; i++ {
		if want[i].cyclic {
			nd_assert(gerr[i] != nil, "C18.inherit.cycle-error")
			continue
		}
		if want[i].err {
			nd_assert(gerr[i] != nil, "C18.inherit.missing")
			continue
		}
		nd_assert(gerr[i] == nil, "C18.inherit.noerror")
		if gerr[i] == nil {
			nd_assert(got[i].LLVMTarget == want[i].scalar, "C18.inherit.scalar")
			nd_assert(sameStrs(got[i].BuildTags, want[i].list), "C18.inherit.list")
			nd_assert(got[i].Name == nodeNames[i], "C18.inherit.name")
		}
	}
	nd_reach("C18.inherit")
}

// all graphs on 2 nodes incl. missing parents, symbolic presence of settings
func H_inherit2() { inheritCheck(2, true, true) }

// all graphs on 3 nodes (chains, diamonds/shortcut edges, cycles, self loops)
func H_inherit3() { inheritCheck(3, false, false) }

// all graphs on 3 nodes with missing parents and symbolic presence (thorough)
func H_inherit3full() { inheritCheck(3, true, true) }
