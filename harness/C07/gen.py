#!/usr/bin/env python3
"""C07 corpus: multi-package programs in which near-miss pairs of types (one
attribute apart) meet at run time through type assertion, type switch,
interface equality and interface-keyed maps, and (concrete type, interface)
pairs meet through conversion, assertion and method calls."""
import json, os, sys

HDR = '''import _ "unsafe"

//go:linkname trace C.trace
func trace(x int)

//go:linkname nd C.nd
func nd() int
'''

# (type expression in p1, type expression in p2, comparable with ==)
PAIRS = [
    ('struct{ lib.T }', 'struct{ T lib.T }', True),
    ('struct{ A int }', 'struct{ A int }', True),
    ('struct{ A int `k:"x"` }', 'struct{ A int `k:"y"` }', True),
    ('struct{ A int `k:"x"` }', 'struct{ A int }', True),
    ('struct{ a int }', 'struct{ a int }', True),
    ('struct{ A, B int }', 'struct{ B, A int }', True),
    ('struct{ A int; B int8 }', 'struct{ A int; B uint8 }', True),
    ('func(...int)', 'func([]int)', False),
    ('func(int) int', 'func(x int) (y int)', False),
    ('func(int, int8)', 'func(int8, int)', False),
    ('chan int', '<-chan int', True),
    ('chan<- int', '<-chan int', True),
    ('chan<- int', 'chan<- int', True),
    ('[]lib.T', '[]lib.T', False),
    ('[2]int', '[3]int', True),
    ('[2]int', '[2]int', True),
    ('map[string]int', 'map[string]int', False),
    ('map[string]int', 'map[string]int8', False),
    ('interface{ M() }', 'interface{ M() }', True),
    ('interface{ m() }', 'interface{ m() }', True),
    ('interface{ M(); N() }', 'interface{ N(); M() }', True),
    ('*interface{ M() }', '*interface{ M() int }', True),
    ('lib.Box[int]', 'lib.Box[int]', True),
    ('lib.Box[int]', 'lib.Box[int8]', True),
    ('lib.Box[lib.T]', 'lib.Box[struct{ A int }]', True),
    ('*struct{ lib.T }', '*struct{ T lib.T }', True),
    ('[]struct{ *lib.T }', '[]struct{ T *lib.T }', False),
    ('struct{ lib.T; X int }', 'struct{ X int; lib.T }', True),
    ('struct{ F struct{ lib.T } }', 'struct{ F struct{ T lib.T } }', True),
    ('lib.T', 'lib.U', True),
    ('lib.T', 'lib.T', True),
    ('Named', 'Named', True),
    ('Alias', 'lib.T', True),
    ('*Named', '*Named', True),
    ('func(lib.T) Named', 'func(lib.T) Named', False),
    ('int', 'uint', True),
    ('uintptr', 'uint', True),
    ('int32', 'rune', True),
    ('uint8', 'byte', True),
    ('string', '[]byte', False),
    ('complex64', 'complex128', True),
    ('unsafe.Pointer', 'uintptr', True),
    ('unsafe.Pointer', '*int', True),
    # same spelling, different package: the named type differs, so every type built from it differs
    ('lib.Box[Named]', 'lib.Box[Named]', True),
    ('[]Named', '[]Named', False),
    ('map[Named]int', 'map[Named]int', False),
    ('func(Named)', 'func(Named)', False),
    ('chan Named', 'chan Named', True),
    ('struct{ N Named }', 'struct{ N Named }', True),
    ('*lib.Box[int]', '*lib.Box[int]', True),
    ('[2][3]int', '[3][2]int', True),
    ('**int', '*int', True),
    ('struct{ _ int; A int }', 'struct{ A int; _ int }', True),
    ('struct{ _ int; X int }', 'struct{ _ int; X int }', True),
    ('[]struct{ _ int8; Y string }', '[]struct{ _ int8; Y string }', False),
    ('struct{ A int; _ int8 }', 'struct{ A int; _ uint8 }', True),
    ('func() (int, error)', 'func() (error, int)', False),
    ('func(...lib.T)', 'func(...lib.U)', False),
    ('interface{ lib.Hello }', 'interface{ Hello() int }', True),
    ('*interface{ lib.Hello }', '*interface{ Hello() int }', True),
    ('*interface{ Hello() int; m() }', '*interface{ Hello() int; m() }', True),
    ('map[string]struct{ lib.T }', 'map[string]struct{ T lib.T }', False),
    ('[1]struct{ A int `a:"b"` }', '[1]struct{ A int }', True),
    # variadic-ness when the parameter list itself mentions func types (functional options)
    ('func(...lib.Opt)', 'func([]lib.Opt)', False),
    ('func(...func(int))', 'func([]func(int))', False),
    ('func(...lib.Opt) int', 'func(...lib.Opt) int', False),
    ('func(func(...int))', 'func(func([]int))', False),
    ('interface{ M(...lib.Opt) }', 'interface{ M([]lib.Opt) }', True),
    ('func(int, ...lib.Opt)', 'func(int, []lib.Opt)', False),
]


def pkg(name, side, pairs):
    s = 'package %s\n\nimport (\n\t"unsafe"\n\n\t"MOD/lib"\n)\n\nvar _ unsafe.Pointer\n\ntype Named struct{ A int }\ntype Alias = lib.T\n\n' % name
    for i, p in enumerate(pairs):
        t = p[side]
        s += 'func V%d() any { var z %s; return z }\n' % (i, t)
        s += 'func Is%d(x any) bool { _, ok := x.(%s); return ok }\n' % (i, t)
    s += '''
// local named types with the same name in two functions
func L0() any { type L struct{ X int }; return L{} }
func L1() any { type L struct{ X int }; return L{} }
func L2() any { return inst[int]() }
func L3() any { return inst[int8]() }
func inst[T any]() any { type L struct{ X T }; return L{} }
func Sw(x any) int {
	switch x.(type) {
'''
    seen = set()
    k = 0
    for i, p in enumerate(pairs):
        t = p[side]
        if t in seen or t in ('Alias', 'uint8', 'byte', 'int32', 'rune') and ('lib.T' in seen and t == 'Alias'):
            continue
        # identical types may not repeat in one switch
        canon = {'Alias': 'lib.T', 'byte': 'uint8', 'rune': 'int32', 'func(x int) (y int)': 'func(int) int'}.get(t, t)
        if canon in seen:
            continue
        seen.add(canon)
        seen.add(t)
        s += '\tcase %s:\n\t\treturn %d\n' % (t, i + 1)
    s += '\t}\n\treturn 0\n}\n'
    return s


LIB = '''package lib

type T struct{ A int }

func (t T) Hello() int { return t.A + 1 }

type U struct{ A int }

func (u U) Hello() int { return u.A + 2 }

type Hello interface{ Hello() int }

type Opt func(*int)

type Box[X any] struct{ V X }

func (b Box[X]) Get() X { return b.V }
'''


def nearmiss():
    n = len(PAIRS)
    main = 'package MODNAME\n\nimport (\n\t"MOD/p1"\n\t"MOD/p2"\n)\n\n' + HDR + '''
func b2i(b bool) int {
	if b {
		return 1
	}
	return 0
}

func Run(k int) int {
'''
    for i, p in enumerate(PAIRS):
        e = 'b2i(p2.Is%d(p1.V%d())) + 2*b2i(p1.Is%d(p2.V%d()))' % (i, i, i, i)
        if p[2]:
            e += ' + 4*b2i(p1.V%d() == p2.V%d())' % (i, i)
        e += ' + 8*p1.Sw(p2.V%d()) + 512*p2.Sw(p1.V%d())' % (i, i)
        main += '\ttrace(%s)\n' % e
    main += '''	ls := [8]any{p1.L0(), p1.L1(), p2.L0(), p2.L1(), p1.L2(), p1.L3(), p2.L2(), p2.L3()}
	for i := range ls {
		r := 0
		for j := range ls {
			r = r*2 + b2i(ls[i] == ls[j])
		}
		trace(r)
	}
	m := map[any]int{}
	m[p1.V0()] += 1
	m[p2.V0()] += 10
	m[p1.V1()] += 100
	m[p2.V1()] += 1000
	m[p1.V4()] += 10000
	m[p2.V4()] += 100000
	trace(len(m))
	trace(m[p1.V0()] + m[p1.V1()] + m[p1.V4()])
	return k
}
'''
    return {'lib/lib.go': LIB, 'p1/p1.go': pkg('p1', 0, PAIRS), 'p2/p2.go': pkg('p2', 1, PAIRS), 'main.go': main}


IFACE = {
    'base/base.go': '''package base

type Sealed interface {
	sealed() int
	Pub() int
}

type T struct{ N int }

func (t T) sealed() int { return t.N + 40 }
func (t T) Pub() int    { return t.N + 1 }

type P struct{ N int }

func (p *P) sealed() int { return p.N + 50 }
func (p *P) Pub() int    { return p.N + 2 }

func Call(s Sealed) int { return s.sealed()*100 + s.Pub() }

type Stringer interface{ String() int }
type Wide interface {
	A() int
	B() int
	C() int
}
type Narrow interface{ B() int }
''',
    'main.go': 'package MODNAME\n\nimport "MOD/base"\n\n' + HDR + '''
type localSealed interface{ sealed() int }

// E promotes base.T's unexported method: it implements base.Sealed but not localSealed
type E struct {
	base.T
	X int
}

// U has its own unexported method of the same name
type U struct{ N int }

func (u U) sealed() int { return u.N + 1000 }
func (u U) Pub() int    { return u.N + 3 }

type EP struct{ *base.P }

type W struct{ N int }

func (w W) A() int  { return w.N + 1 }
func (w W) B() int  { return w.N + 2 }
func (w W) C() int  { return w.N + 3 }
func (w *W) D() int { return w.N + 4 }

type V struct{ N int }

func (v *V) B() int { return v.N + 7 }

// the method table is sorted by name with unexported names qualified by the
// package path: "Lire" < "tvc07iface.aide" < "Écrire" - the exported methods
// are not a prefix of the table
type Doc struct{ N int }

func (d Doc) Lire() int   { return d.N + 21 }
func (d Doc) aide() int   { return d.N + 22 }
func (d Doc) Écrire() int { return d.N + 23 }

type Écrivain interface{ Écrire() int }
type Tout interface {
	Lire() int
	Écrire() int
}

func probe(x any) int {
	r := 0
	if s, ok := x.(base.Sealed); ok {
		r += base.Call(s)
	}
	if s, ok := x.(localSealed); ok {
		r += s.sealed() * 100000
	}
	if s, ok := x.(base.Narrow); ok {
		r += s.B() * 7
	}
	if s, ok := x.(base.Wide); ok {
		r += s.A()*11 + s.C()*13
	}
	if s, ok := x.(interface{ D() int }); ok {
		r += s.D() * 17
	}
	switch x.(type) {
	case base.Stringer:
		r += 1 << 40
	case base.Wide:
		r += 1 << 41
	case base.Sealed:
		r += 1 << 42
	}
	return r
}

func Run(k int) int {
	k &= 15
	xs := [9]any{base.T{N: k}, &base.T{N: k}, &base.P{N: k}, E{base.T{N: k}, 1}, &E{base.T{N: k}, 1}, U{k}, EP{&base.P{N: k}}, W{k}, &W{k}}
	for _, x := range xs {
		trace(probe(x))
	}
	var ec Écrivain = Doc{k}
	var to Tout = &Doc{k + 1}
	trace(ec.Écrire()*1000 + to.Lire() + to.Écrire() + Doc{k}.aide())
	var dany any = Doc{k}
	if w, ok := dany.(Écrivain); ok {
		trace(w.Écrire())
	}
	if w, ok := dany.(Tout); ok {
		trace(w.Lire() - w.Écrire())
	}
	trace(probe(V{k}))
	trace(probe(&V{k}))
	trace(probe(nil))
	// static conversion and call through the interface reach the direct method
	var s base.Sealed = E{base.T{N: k}, 2}
	w := W{k}
	var wi base.Wide = w
	var ni base.Narrow = wi
	return base.Call(s) - (E{base.T{N: k}, 2}).Pub() + wi.A() - w.A() + ni.B() - w.B() + wi.C()*3
}
''',
}

# the same program under a module path that starts with a digit: unexported method
# names are qualified with the package path, which then sorts BEFORE the exported
# names ("9tv07.example/order/base.sealed" < "Pub") - method tables and interface
# method lists must still be walked consistently
ORDER = dict(IFACE)
ORDER['__mod__'] = '9tv07.example/order'

PROGRAMS = {'nearmiss': nearmiss(), 'iface': IFACE, 'order': ORDER}


def main():
    out, tier = sys.argv[1], sys.argv[2]
    os.makedirs(out, exist_ok=True)
    progs = {}
    for name, files in PROGRAMS.items():
        mod = files.get('__mod__', 'tvc07' + name)
        d = os.path.join(out, name)
        pkgs = set()
        for rel, src in files.items():
            if rel == '__mod__':
                continue
            p = os.path.join(d, rel)
            os.makedirs(os.path.dirname(p), exist_ok=True)
            open(p, 'w').write(src.replace('MODNAME', mod.split('/')[-1]).replace('MOD', mod))
            if os.path.dirname(rel):
                pkgs.add(mod + '/' + os.path.dirname(rel))
        open(os.path.join(d, 'go.mod'), 'w').write('module %s\n\ngo 1.24\n' % mod)
        progs[name] = {'dir': d, 'pkgpath': mod, 'pkgs': sorted(pkgs), 'funcs': {'Run': {'params': [('k', 'int')], 'result': 'int'}}}
    json.dump(progs, open(os.path.join(out, 'programs.json'), 'w'))
    print(len(progs))


main()
