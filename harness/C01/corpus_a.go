package tvc01

import (
	_ "unicode/utf8"
	_ "unsafe"
)

//go:linkname trace C.trace
func trace(x int)

// ---- branches, loops, labelled jumps, switch ---------------------------------

func IfElse(a, b int) int {
	if a < b {
		return a*2 + 1
	} else if a == b {
		return -a
	}
	return b - a
}

func ForBreakContinue(n, k int) int {
	s := 0
	for i := 0; i < n; i++ {
		if i == k {
			continue
		}
		if i > k+2 {
			break
		}
		s += i * i
	}
	return s
}

func Labelled(n, m int) int {
	s := 0
outer:
	for i := 0; i < n; i++ {
		for j := 0; j < m; j++ {
			if j == 2 {
				continue outer
			}
			if i == 2 && j == 1 {
				break outer
			}
			s += i*10 + j
		}
		s += 100
	}
	return s
}

func SwitchExpr(x int) int {
	switch x {
	case 1, 2:
		return 10
	case 3:
		trace(3)
		fallthrough
	case 4:
		return 40
	default:
		if x < 0 {
			return -1
		}
	}
	return 0
}

func SwitchTagless(x, y int) int {
	switch {
	case x > y && y > 0:
		return 1
	case x > y:
		return 2
	case x == y:
		return 3
	}
	return 4
}

func Goto(n int) int {
	i, s := 0, 0
loop:
	if i < n {
		s += i
		i++
		goto loop
	}
	return s
}

// ---- multiple assignment, swap ----------------------------------------------

func Swap(a, b int) int {
	a, b = b, a+b
	a, b = b-a, a
	return a*1000 + b
}

func SwapIdx(a [3]int, i, j int) int {
	i, j = i&1, (j&1)+1
	a[i], a[j] = a[j], a[i]
	return a[0]*100 + a[1]*10 + a[2]
}

func divmod(a, b int) (int, int) { return a / b, a % b }

func MultiRet(a, b int) int {
	q, r := divmod(a, b)
	return q*7 + r
}

// ---- structs, arrays, pointers -----------------------------------------------

type point struct{ x, y int }
type rect struct {
	min, max point
	tag      int8
}

func (p point) add(q point) point { return point{p.x + q.x, p.y + q.y} }
func (p *point) scale(k int)      { p.x *= k; p.y *= k }
func (r rect) area() int          { return (r.max.x - r.min.x) * (r.max.y - r.min.y) }

func StructByValue(a, b, k int) int {
	p := point{a, b}
	q := p
	q.scale(k)
	r := p.add(q)
	return r.x*3 + r.y - p.x
}

func NestedStruct(a, b, c, d int) int {
	r := rect{point{a, b}, point{c, d}, 7}
	r2 := r
	r2.min.x++
	pp := &r.max
	pp.scale(2)
	return r.area() - r2.area() + int(r2.tag)
}

func ArrayByValue(a [4]int32, i int) int32 {
	b := a
	b[i&3] = 99
	s := int32(0)
	for _, v := range a {
		s += v
	}
	for k := range b {
		s += b[k] * int32(k)
	}
	return s
}

func PtrAlias(a, b int) int {
	x, y := a, b
	p, q := &x, &y
	if a > b {
		p = q
	}
	*p += 10
	*q *= 2
	return x*100 + y
}

func newCounter(start int) *int {
	c := start
	return &c
}

func EscapingPtr(a int) int {
	p := newCounter(a)
	q := newCounter(a)
	*p++
	return *p*2 + *q
}

// ---- closures -----------------------------------------------------------------

func Counter(n int) int {
	c := 0
	inc := func() int { c++; return c }
	s := 0
	for i := 0; i < n; i++ {
		s += inc()
	}
	return s*10 + c
}

func adder(base int) func(int) int {
	return func(x int) int { base += x; return base }
}

func ClosureState(a, b int) int {
	f := adder(a)
	g := adder(b)
	f(1)
	g(2)
	return f(10)*100 + g(20)
}

func LoopVarCapture(n int) int {
	var fs [3]func() int
	for i := 0; i < 3; i++ {
		fs[i] = func() int { return i * n }
	}
	return fs[0]() + fs[1]()*10 + fs[2]()*100
}

func apply(f func(int, int) int, a, b int) int { return f(a, b) }

func FuncValue(a, b int, sel bool) int {
	f := func(x, y int) int { return x - y }
	if sel {
		f = func(x, y int) int { return x*y + a }
	}
	return apply(f, a, b)
}

// ---- methods, embedding, interfaces -------------------------------------------

type shape interface {
	area() int
	name() int
}

type sq struct{ s int }
type circ struct{ r int }

func (s sq) area() int    { return s.s * s.s }
func (s sq) name() int    { return 1 }
func (c *circ) area() int { return 3 * c.r * c.r }
func (c *circ) name() int { return 2 }

func IfaceCall(a int, sel bool) int {
	var sh shape
	if sel {
		sh = sq{a}
	} else {
		sh = &circ{a}
	}
	return sh.area()*10 + sh.name()
}

type base struct{ id int }

func (b base) ident() int   { return b.id * 2 }
func (b *base) bump()       { b.id++ }
type derived struct {
	base
	extra int
}

func Embedding(a, b int) int {
	d := derived{base{a}, b}
	d.bump()
	return d.ident()*100 + d.id + d.extra
}

func TypeSwitch(a int, k int) int {
	var v interface{}
	switch k & 3 {
	case 0:
		v = a
	case 1:
		v = int8(a)
	case 2:
		v = point{a, a + 1}
	default:
		v = nil
	}
	switch t := v.(type) {
	case int:
		return t + 1
	case int8:
		return int(t) + 2
	case point:
		return t.x + t.y
	case nil:
		return -5
	}
	return -1
}

func TypeAssertOk(a int, sel bool) int {
	var v interface{} = a
	if sel {
		v = int32(a)
	}
	if x, ok := v.(int); ok {
		return x * 2
	}
	return -1
}

// ---- generics ------------------------------------------------------------------

type number interface{ ~int | ~int32 | ~uint8 }

func sumOf[T number](xs ...T) T {
	var s T
	for _, x := range xs {
		s += x
	}
	return s
}

func maxOf[T number](a, b T) T {
	if a > b {
		return a
	}
	return b
}

type pair[K comparable, V any] struct {
	k K
	v V
}

func (p pair[K, V]) same(o pair[K, V]) bool { return p.k == o.k }

func Generics(a, b int, c uint8) int {
	x := sumOf(a, b, 3)
	y := sumOf(c, c)
	z := maxOf(int32(a), int32(b))
	p, q := pair[int, uint8]{a, c}, pair[int, uint8]{b, c}
	r := 0
	if p.same(q) {
		r = 1
	}
	return x + int(y)*1000 + int(z)*7 + r
}

// ---- range forms ----------------------------------------------------------------

func RangeSlice(s []int32) int32 {
	t := int32(0)
	for i, v := range s {
		t += v * int32(i+1)
	}
	return t
}

func RangeString(s string) int {
	t := 0
	for i, r := range s {
		t += i*1000 + int(r)
	}
	return t
}

func RangeInt(n int) int {
	t := 0
	for i := range n {
		t += i
	}
	return t
}

func seq(n int) func(yield func(int) bool) {
	return func(yield func(int) bool) {
		for i := 0; i < n; i++ {
			if !yield(i) {
				return
			}
		}
	}
}

func RangeFunc(n, stop int) int {
	t := 0
	for v := range seq(n) {
		if v == stop {
			break
		}
		t += v + 1
	}
	return t
}

func RangeArrayPtr(a *[3]int) int {
	t := 0
	for i := range a {
		t += i
	}
	for _, v := range *a {
		t += v
	}
	return t
}

// ---- evaluation order that the spec fixes ------------------------------------------

type obj struct{ v int }

func (o *obj) get() int { trace(o.v); return o.v }

func OrderCalls(a, b int) int {
	o1, o2 := &obj{a}, &obj{b}
	return o1.get()*3 - o2.get()
}

func OrderAndOr(a, b int) bool {
	o1, o2 := &obj{a}, &obj{b}
	return (o1.get() > 0 && o2.get() > 0) || o1.get() == b
}

// ---- strings and slices in ordinary code ----------------------------------------

func StringOps(s string, n int) int {
	t := s + "xy"
	if len(t) > 3 && t[1] == 'x' {
		return 1
	}
	if s == "ab" {
		return 2
	}
	if s < "b" {
		return 3
	}
	return len(t[n&1:])
}

func AppendOps(s []int32, x int32) int32 {
	t := append(s, x)
	t = append(t, 7, 8)
	u := append([]int32(nil), t[1:]...)
	r := int32(len(t)*100 + len(u))
	if len(u) > 0 {
		r += u[0]
	}
	return r + t[len(t)-1]
}

func CopyOps(s []int32, k int) int32 {
	var a [4]int32
	n := copy(a[:], s)
	m := copy(a[1:], a[:k&3])
	return int32(n*1000+m*100) + a[0] + a[1]*2 + a[2]*3 + a[3]*4
}
