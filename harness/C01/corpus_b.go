package tvc01

// ---- value semantics of range, copies and evaluation order ------------------------

// range over an array iterates over a copy of the array
func RangeArrayCopy(a [3]int) int {
	s := 0
	for i, v := range a {
		if i == 0 {
			a[2] = 100
		}
		s += v
	}
	return s + a[2]*1000
}

// range over a slice sees later element updates (no copy), length fixed at start
func RangeSliceLive(s []int32) int32 {
	t := int32(0)
	for i, v := range s {
		if i == 0 && len(s) > 1 {
			s[1] = 50
		}
		t += v
	}
	return t
}

type cnt struct{ n int }

func (c *cnt) bump() int { c.n++; return c.n }

// a value copied before a mutating call keeps the old state
func CopyBeforeCall(a int) int {
	o := cnt{a}
	old := o
	n := o.bump()
	return old.n*1000 + n
}

func retPair(o cnt) (cnt, int) {
	old := o
	n := o.bump()
	return old, n
}

func CopyBeforeCallRet(a int) int {
	old, n := retPair(cnt{a})
	return old.n*1000 + n
}

type small struct{ a, b int32 }

func snap(p *small) small {
	old := *p
	p.a = 9
	return old
}

func StructSnapshot(a, b int32) int32 {
	s := small{a, b}
	o := snap(&s)
	return o.a*100 + s.a
}

// array assignment copies
func ArrayAssignCopies(x, y int) int {
	a := [2]int{x, y}
	b := a
	a[0] = 7
	p := &b
	c := *p
	p[1] = 8
	return a[0] + b[0]*10 + b[1]*100 + c[1]*1000
}

// loop-local variables are fresh (zeroed) on every iteration
func LoopLocalZeroed(n int) int {
	t := 0
	for i := 0; i < n&3; i++ {
		var h [4]int
		h[i&3]++
		h[(i+1)&3] += 2
		for _, v := range h {
			t += v
		}
	}
	return t
}

type cell struct{ v, w int }

func LoopLocalStruct(n int) int {
	t := 0
	for i := 0; i < n&3; i++ {
		c := cell{v: i}
		c.w += i + 1
		t += c.v*10 + c.w
	}
	return t
}

// operands are evaluated left to right, calls in order
func sideA(p *int) int { *p += 1; trace(*p); return *p }
func sideB(p *int) int { *p *= 2; trace(*p); return *p }

func OrderOperands(a int) int {
	x := a
	return sideA(&x)*100 + sideB(&x)*10 + sideA(&x)
}

func OrderAssign(a int) int {
	x := a
	arr := [3]int{}
	arr[0], arr[1], arr[2] = sideA(&x), sideB(&x), sideA(&x)
	return arr[0]*100 + arr[1]*10 + arr[2]
}

// defer-free early returns through nested blocks
func NestedReturn(a, b int) (r int) {
	for i := 0; i < 3; i++ {
		switch {
		case i == a:
			if b > 0 {
				return i + 10
			}
		case i == b:
			r += 5
			continue
		}
		r++
	}
	return
}

// bounded variants of the loop tests (no unwinding truncation)
func BoundedLoops(n, k int) int {
	n, k = n&3, k&3
	s := 0
outer:
	for i := 0; i < n; i++ {
		for j := 0; j < 3; j++ {
			if j == k {
				continue outer
			}
			if i == 2 && j == 1 {
				break outer
			}
			s += i*10 + j
		}
		s += 100
	}
	c := 0
	inc := func() int { c++; return c }
	for i := range n {
		s += inc() * (i + 1)
	}
	for v := range seq(n) {
		if v == k {
			break
		}
		s += v + 1
	}
	return s*10 + c
}

// large structs passed and returned by value around mutations of the source
type big struct{ a, b, c int }

func (b *big) scale(k int) { b.a *= k; b.b *= k; b.c *= k }
func sumBig(b big) int     { return b.a + b.b + b.c }
func mkBig(x int) big      { return big{x, x + 1, x + 2} }

func ByvalAfterMutation(x, k int) int {
	v := mkBig(x)
	p := &v
	old := *p
	p.scale(k)
	return sumBig(old)*1000 + sumBig(*p)
}

func bigSnap(p *big) big {
	old := *p
	p.a = 77
	return old
}

func BigSnapshot(x int) int {
	v := mkBig(x)
	o := bigSnap(&v)
	return o.a*1000 + v.a
}

func pick(f func(big) int, b big) int { return f(b) }

func ByvalClosure(x, k int) int {
	v := mkBig(x)
	f := func(b big) int { v.scale(k); return b.a + v.a }
	return pick(f, v)*10 + sumBig(v)
}

// ---- aggregates larger than a few registers: assignment copies the old value ----

type vec [20]int

type blob struct {
	a, b vec
	tag  int
}

func (v *vec) fill(k int) {
	v[0], v[7], v[19] = k, k*3, k*5
}

func SwapBig(k int) int {
	a := vec{0: k, 3: k + 1, 19: 5}
	b := vec{0: 2 * k, 3: 7, 19: k - 9}
	a, b = b, a
	return a[0]*31 + a[3]*7 + a[19] - (b[0]*5 + b[3]*3 + b[19])
}

func SwapBigTmp(k int) int {
	a := vec{1: k, 4: k + 1}
	b := vec{1: k * 4, 4: 9}
	tmp := a
	a = b
	b = tmp
	return a[1]*100 + a[4]*10 + b[1]*3 + b[4]
}

func RotateBig(k int) int {
	var r [3]vec
	r[0][2], r[1][2], r[2][2] = k, k+10, k+20
	r[0], r[1], r[2] = r[1], r[2], r[0]
	return r[0][2]*10000 + r[1][2]*100 + r[2][2]
}

func SwapBigPtr(k int, same bool) int {
	x := vec{5: k}
	y := vec{5: k ^ 21}
	p, q := &x, &y
	if same {
		q = p
	}
	*p, *q = *q, *p
	return x[5]*1000 + y[5]
}

func SavedCopyBig(k int) int {
	var cur, prev vec
	cur.fill(k)
	old := cur
	cur.fill(k + 100)
	prev = old
	return prev[0]*7 + prev[7] - cur[19] + old[19]
}

func BlobCopy(k int) int {
	var x blob
	x.a.fill(k)
	x.tag = k
	y := x
	x.a.fill(k + 1)
	x.b = x.a
	x.a = y.b
	return y.a[7] + x.b[7]*3 + x.a[0] + y.tag
}

// ---- a snapshot copied before later element / field stores and a call on the original ----

type hsub struct {
	id  int
	sub [2]int
}

type hcnt struct {
	n    int
	hist [4]int
	tag  hsub
}

func (c *hcnt) total() int {
	return c.n + c.hist[0] + c.hist[1] + c.hist[2] + c.hist[3] + c.tag.id + c.tag.sub[0] + c.tag.sub[1]
}

func snapElem(x, i int) (hcnt, int) {
	var o hcnt
	o.hist[i] = x
	v := o
	o.hist[i] = x + 100
	return v, o.total()
}

// the copy made before an array-element store keeps the old element
func SnapElemStore(x int, i int) int {
	c, r := snapElem(x, i&3)
	return c.hist[i&3]*7 + r
}

func snapNestedElem(x, i int) (hcnt, int) {
	var o hcnt
	o.tag.sub[i] = x
	v := o
	o.tag.sub[i] = x + 100
	return v, o.total()
}

func SnapNestedElemStore(x int, i int) int {
	c, r := snapNestedElem(x, i&1)
	return c.tag.sub[i&1]*7 + r
}

func snapNestedField(x int) (hcnt, int) {
	var o hcnt
	o.tag.id = x
	v := o
	o.tag.id = x + 100
	return v, o.total()
}

func SnapNestedFieldStore(x int) int {
	c, r := snapNestedField(x)
	return c.tag.id*7 + r
}

// ---- a struct key with tail padding: == keys built separately address one entry ----

type padKey struct {
	id  int64
	tag int8
}

func mkPadKey(a int64, b int8) padKey { return padKey{a, b} }

func MapPaddedKey(a int64, b int8) int {
	m := map[padKey]int{}
	m[padKey{a, b}] = 7
	k := mkPadKey(a, b)
	v, ok := m[k]
	m[mkPadKey(a, b)] = 9
	r := len(m)*100 + v
	if ok {
		r += 1000
	}
	delete(m, k)
	return r + len(m)*10
}
