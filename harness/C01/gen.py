#!/usr/bin/env python3
"""C01 generated corpus: random small functions over integers, arrays, structs,
slices-of-locals, closures and methods, drawn from a statement grammar.  Every
function is total (no division, indices masked, loops with constant trip counts)
and observable through its result and trace() calls; translation validation
decides each one for ALL argument values."""
import json, os, random, sys

ITYPES = ['int', 'int64', 'int32', 'uint8', 'uint32', 'int8', 'uint64', 'int16']


class G:
    def __init__(self, rnd):
        self.r = rnd
        self.lines = []
        self.ind = 1
        self.vars = []     # int-typed scalar variables in scope
        self.nv = 0
        self.depth = 0

    def emit(self, s):
        self.lines.append('\t' * self.ind + s)

    def fresh(self):
        self.nv += 1
        return 'v%d' % self.nv

    def atom(self):
        r = self.r
        k = r.random()
        if k < 0.55 and self.vars:
            return r.choice(self.vars)
        if k < 0.7:
            c = r.choice([0, 1, 2, 3, 5, 7, 8, 15, 16, 31, 63, 64, 100, 127, 128, 255, 256, 1000, 65535, -1, -2, -128])
            return 'id(%d)' % c
        if k < 0.8:
            return 'arr[%s&3]' % r.choice(self.vars or ['a'])
        if k < 0.9:
            return r.choice(['st.x', 'st.y', 'int(st.b)'])
        return 'len(sl)'

    def expr(self, d=0):
        r = self.r
        if d > 1 or r.random() < 0.3:
            return self.atom()
        k = r.random()
        if k < 0.5:
            op = r.choice(['+', '-', '*', '&', '|', '^', '&^', '+', '-', '^'])
            if op == '*':
                # symbolic-by-symbolic products stall bit-blasting: multiply by constants only
                return '(%s * %d)' % (self.expr(d + 1), r.choice([2, 3, 5, 10, 16, 255, -1, -3]))
            return '(%s %s %s)' % (self.expr(d + 1), op, self.expr(d + 1))
        if k < 0.62:
            return '(%s %s %d)' % (self.expr(d + 1), r.choice(['<<', '>>']), r.choice([0, 1, 3, 7, 13, 31, 63, 64, 70]))
        if k < 0.7:
            return '(%s %s uint(%s&7))' % (self.expr(d + 1), r.choice(['<<', '>>']), self.atom())
        if k < 0.85:
            t = r.choice(ITYPES)
            return 'int(%s(%s))' % (t, self.expr(d + 1))
        if k < 0.92:
            return 'sel(%s, %s, %s)' % (self.cond(d + 1), self.expr(d + 1), self.expr(d + 1))
        if k < 0.96:
            return 'st.get(%s)' % self.expr(d + 1)
        return '(0 - %s)' % self.expr(d + 1)

    def cond(self, d=0):
        r = self.r
        c = '%s %s %s' % (self.expr(d + 1), r.choice(['<', '<=', '>', '>=', '==', '!=']), self.expr(d + 1))
        k = r.random()
        if k < 0.15:
            return '%s && %s' % (c, self.cond(d + 1)) if d < 2 else c
        if k < 0.3:
            return '%s || %s' % (c, self.cond(d + 1)) if d < 2 else c
        if k < 0.36:
            return '!(%s)' % c
        return c

    def stmt(self):
        r = self.r
        k = r.random()
        self.depth += 1
        try:
            if self.depth > 3:
                k = k * 0.45
            if k < 0.22:
                v = self.fresh()
                self.emit('%s := %s' % (v, self.expr()))
                self.emit('_ = %s' % v)
                self.vars.append(v)
            elif k < 0.36 and self.vars:
                self.emit('%s %s %s' % (r.choice(self.vars), r.choice(['=', '+=', '-=', '^=', '|=', '&=']), self.expr()))
            elif k < 0.42:
                self.emit('arr[%s&3] %s %s' % (self.atom(), r.choice(['=', '+=', '^=']), self.expr()))
            elif k < 0.47:
                self.emit(r.choice(['st.x', 'st.y']) + ' += ' + self.expr())
            elif k < 0.5:
                self.emit('trace(%s)' % self.expr())
            elif k < 0.62:
                self.emit('if %s {' % self.cond())
                self.block()
                if r.random() < 0.5:
                    self.emit('} else {')
                    self.block()
                self.emit('}')
            elif k < 0.72:
                i = self.fresh()
                n = r.choice([1, 2, 3, 4])
                self.emit('for %s := 0; %s < %d; %s++ {' % (i, i, n, i))
                self.vars.append(i)
                self.block(loop=True)
                self.vars.remove(i)
                self.emit('}')
            elif k < 0.78:
                i, e = self.fresh(), self.fresh()
                self.emit('for %s, %s := range arr {' % (i, e))
                self.vars += [i, e]
                self.emit('_, _ = %s, %s' % (i, e))
                self.block(loop=True)
                self.vars.remove(i)
                self.vars.remove(e)
                self.emit('}')
            elif k < 0.86:
                self.emit('switch %s & 3 {' % self.expr())
                cs = r.sample([0, 1, 2, 3], r.choice([1, 2, 3]))
                dflt = r.random() < 0.5
                for k2, c in enumerate(cs):
                    self.emit('case %d:' % c)
                    last = k2 == len(cs) - 1 and not dflt
                    self.block(extra=(not last) and r.random() < 0.2 and 'fallthrough')
                if dflt:
                    self.emit('default:')
                    self.block()
                self.emit('}')
            elif k < 0.9:
                self.emit('st.bump(%s)' % self.expr())
            elif k < 0.94:
                v = self.fresh()
                self.emit('%s := func(q int) int { return q + %s }' % (v, self.expr()))
                self.emit('acc += %s(%s)' % (v, self.expr()))
            elif k < 0.97:
                self.emit('sl = append(sl, %s)' % self.expr())
                self.emit('if len(sl) > 3 { sl = sl[1:3] }')
            else:
                v = self.fresh()
                self.emit('%s := st' % v)
                self.emit('%s.x++' % v)
                self.emit('acc += %s.x - st.x + %s.get(1)' % (v, v))
        finally:
            self.depth -= 1

    def block(self, loop=False, extra=None):
        r = self.r
        self.ind += 1
        saved = list(self.vars)
        for _ in range(r.choice([1, 1, 2, 3])):
            self.stmt()
        if loop and r.random() < 0.3:
            self.emit('if %s { %s }' % (self.cond(), r.choice(['break', 'continue'])))
        self.emit('acc += %s' % self.expr())
        if extra and not loop:
            self.emit(extra)
        self.vars = saved
        self.ind -= 1


def gen_func(rnd, name):
    g = G(rnd)
    nparams = rnd.choice([1, 2, 3])
    ptypes = [rnd.choice(['int', 'int', 'int32', 'uint8', 'int64', 'uint16']) for _ in range(nparams)]
    names = ['a', 'b', 'c'][:nparams]
    g.emit('acc := 0')
    for n, t in zip(names, ptypes):
        if t != 'int':
            g.emit('%s_ := int(%s)' % (n, n))
            g.emit('_ = %s_' % n)
            g.vars.append(n + '_')
        else:
            g.vars.append(n)
    g.emit('arr := [4]int{%s, 2, %s, 7}' % (g.vars[0], g.vars[-1]))
    g.emit('st := rec{x: %s, y: 3, b: uint8(%s)}' % (g.vars[0], g.vars[-1]))
    g.emit('sl := arr[1:2]')
    g.emit('_, _, _ = arr, st, sl')
    g.vars.append('acc')
    for _ in range(rnd.choice([3, 4, 5, 6])):
        g.stmt()
    g.emit('return acc + arr[0] ^ arr[3] + st.x*3 + st.y + len(sl)')
    ps = ', '.join('%s %s' % (n, t) for n, t in zip(names, ptypes))
    return 'func %s(%s) int {\n%s\n}\n' % (name, ps, '\n'.join(g.lines)), list(zip(names, ptypes))


HDR = '''package tvc01gen

import _ "unsafe"

//go:linkname trace C.trace
func trace(x int)

type rec struct {
	x, y int
	b    uint8
}

func (r rec) get(k int) int { return r.x + (r.y ^ k) + int(r.b) }
func (r *rec) bump(k int)   { r.y += k; r.b++ }

func id(x int) int { return x }

func sel(c bool, x, y int) int {
	if c {
		return x
	}
	return y
}

'''


def main():
    out, tier = sys.argv[1], sys.argv[2]
    seed = int(os.environ.get('VERIF_SEED', '1'))
    n = 48 if tier == 'quick' else 200
    rnd = random.Random(7000 + seed)
    os.makedirs(out, exist_ok=True)
    src, meta = [HDR], {}
    for i in range(n):
        name = 'Gen%03d' % i
        body, params = gen_func(rnd, name)
        src.append(body)
        meta[name] = {'params': params, 'result': 'int', 'group': 'generated'}
    open(os.path.join(out, 'gen.go'), 'w').write('\n'.join(src))
    open(os.path.join(out, 'go.mod'), 'w').write('module tvc01gen\n\ngo 1.24\n')
    json.dump(meta, open(os.path.join(out, 'meta.json'), 'w'))
    print(n)


main()
