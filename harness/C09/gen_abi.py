#!/usr/bin/env python3
"""C09 (b) corpus: for every struct shape a Go package (compiled by llgo) and a C
file (compiled by the host C compiler) exchange the struct by value in four
directions; each Check function returns true iff every field arrived intact."""
import itertools, json, os, random, sys

PRIM = {
    'i8': ('int8', 'int8_t', 1), 'i16': ('int16', 'int16_t', 2), 'i32': ('int32', 'int32_t', 4), 'i64': ('int64', 'int64_t', 8),
    'f32': ('float32', 'float', 4), 'f64': ('float64', 'double', 8), 'ptr': ('unsafe.Pointer', 'void*', 8),
}


# a shape is a list of members; a member is a primitive name, ('arr', n, prim) or ('st', [prims])
def leaves(shape, prefix_go='s', prefix_c='s'):
    out = []
    for i, m in enumerate(shape):
        g, c = '%s.F%d' % (prefix_go, i), '%s.F%d' % (prefix_c, i)
        if isinstance(m, str):
            out.append((m, g, c))
        elif m[0] == 'arr':
            for k in range(m[1]):
                out.append((m[2], '%s[%d]' % (g, k), '%s[%d]' % (c, k)))
        else:
            for k, p in enumerate(m[1]):
                out.append((p, '%s.G%d' % (g, k), '%s.G%d' % (c, k)))
    return out


def go_type(m, idx, i):
    if isinstance(m, str):
        return PRIM[m][0]
    if m[0] == 'arr':
        return '[%d]%s' % (m[1], PRIM[m[2]][0])
    return 'struct{ %s }' % '; '.join('G%d %s' % (k, PRIM[p][0]) for k, p in enumerate(m[1]))


def c_member(m, i):
    if isinstance(m, str):
        return '%s F%d;' % (PRIM[m][1], i)
    if m[0] == 'arr':
        return '%s F%d[%d];' % (PRIM[m[2]][1], i, m[1])
    return 'struct { %s } F%d;' % (' '.join('%s G%d;' % (PRIM[p][1], k) for k, p in enumerate(m[1])), i)


def go_from_bits(p, v):
    return {'i8': 'int8(%s)', 'i16': 'int16(%s)', 'i32': 'int32(%s)', 'i64': 'int64(%s)', 'f32': 'f32from(uint32(%s))', 'f64': 'f64from(%s)',
            'ptr': 'unsafe.Pointer(uintptr(%s))'}[p] % v


def go_bits(p, e):
    return {'i8': 'uint64(uint8(%s))', 'i16': 'uint64(uint16(%s))', 'i32': 'uint64(uint32(%s))', 'i64': 'uint64(%s)', 'f32': 'uint64(f32bits(%s))',
            'f64': 'f64bits(%s)', 'ptr': 'uint64(uintptr(%s))'}[p] % e


def c_from_bits(p, v, dst):
    if p in ('f32',):
        return '{ uint32_t t = (uint32_t)%s; memcpy(&%s, &t, 4); }' % (v, dst)
    if p == 'f64':
        return '{ uint64_t t = %s; memcpy(&%s, &t, 8); }' % (v, dst)
    if p == 'ptr':
        return '%s = (void*)(uintptr_t)%s;' % (dst, v)
    return '%s = (%s)%s;' % (dst, PRIM[p][1], v)


def c_bits(p, e):
    if p == 'f32':
        return 'f32bits(%s)' % e
    if p == 'f64':
        return 'f64bits(%s)' % e
    if p == 'ptr':
        return '(uint64_t)(uintptr_t)%s' % e
    return '(uint64_t)(u%s)%s' % (PRIM[p][1], e)


def c_expr_from_bits(p, v):
    return {'i8': '(int8_t)(%s)', 'i16': '(int16_t)(%s)', 'i32': '(int32_t)(%s)', 'i64': '(int64_t)(%s)', 'f32': 'f32from((uint32_t)(%s))',
            'f64': 'f64from(%s)', 'ptr': '(void*)(uintptr_t)(%s)'}[p] % v


def c_rot_init(shape):
    """brace initialiser of the shape whose leaf k is leaf k+1 of *p (through its bit pattern)"""
    lv = leaves(shape, 's', '(*p)')
    n = len(lv)
    it = iter(range(n))

    def leaf():
        k = next(it)
        src = lv[(k + 1) % n]
        return c_expr_from_bits(lv[k][0], c_bits(src[0], src[2]))
    parts = []
    for m in shape:
        if isinstance(m, str):
            parts.append(leaf())
        elif m[0] == 'arr':
            parts.append('{ %s }' % ', '.join(leaf() for _ in range(m[1])))
        else:
            parts.append('{ %s }' % ', '.join(leaf() for _ in m[1]))
    return '{ %s }' % ', '.join(parts)


def shapes(tier, seed):
    prims = ['i8', 'i16', 'i32', 'i64', 'f32', 'f64', 'ptr']
    out = [[p] for p in prims]
    out += [list(t) for t in itertools.product(prims, repeat=2)]
    out += [list(t) for t in [
        ('f64', 'f32', 'f32'), ('f64', 'i32', 'i32'), ('f64', 'f32', 'i32'), ('f32', 'f32', 'f64'), ('i32', 'f32', 'f64'), ('f32', 'i32', 'f64'),
        ('f32', 'f32', 'f32'), ('i8', 'i8', 'i8'), ('i64', 'i64', 'i64'), ('f64', 'f64', 'f64'), ('f32', 'i32', 'f32'), ('i32', 'i32', 'f32'),
        ('f32', 'f32', 'i32'), ('i8', 'f32', 'i8'), ('i16', 'i16', 'f32'), ('ptr', 'f32', 'f32'), ('f32', 'f32', 'ptr'), ('i64', 'f64', 'i8'),
        ('f32', 'f32', 'f32', 'f32'), ('i8', 'i16', 'i32', 'i64'), ('f64', 'i16', 'i8', 'i8'), ('i32', 'i32', 'i32', 'i32'), ('f32', 'f32', 'i32', 'i32'),
        ('f32', 'i32', 'f32', 'i32'), ('i32', 'f32', 'i32', 'f32'), ('i8', 'i8', 'i8', 'i8'), ('i16', 'i16', 'i16', 'i16'), ('i8', 'i8', 'f32', 'f64'),
        ('f32',) * 5, ('i32',) * 5, ('i8',) * 8, ('i8',) * 9, ('i16',) * 7, ('f64', 'f64', 'i8'), ('i8',) * 16, ('i8',) * 17, ('f32',) * 6,
        ('i64', 'i64', 'i64', 'i64'), ('f64', 'f64', 'f64', 'f64'), ('i32', 'f64', 'i32', 'f64'), ('ptr', 'ptr', 'ptr'), ('i8', 'f64', 'i8', 'f64', 'i8'),
    ]]
    out += [[('st', ['f32', 'f32']), 'f64'], ['f64', ('st', ['f32', 'f32'])], [('arr', 2, 'f32'), 'f64'], [('arr', 3, 'i32')], [('arr', 2, 'f64')],
            [('arr', 4, 'f32')], [('arr', 3, 'f32')], ['i8', ('arr', 3, 'i8'), 'f32'], [('st', ['i8', 'i32']), ('st', ['f32', 'i8'])], [('arr', 5, 'i16')],
            [('st', ['f64']), ('st', ['f32'])], [('arr', 1, 'f64'), ('arr', 1, 'f32'), 'f32'], [('arr', 2, 'i64'), 'i8'], [('arr', 10, 'f64')]]
    if tier != 'quick':
        rnd = random.Random(seed)
        for _ in range(250):
            n = rnd.randint(3, 8)
            out.append([rnd.choice(prims) for _ in range(n)])
    return out


def main():
    out, tier = sys.argv[1], sys.argv[2]
    seed = int(os.environ.get('VERIF_SEED', '1'))
    os.makedirs(os.path.join(out, 'c'), exist_ok=True)
    go = ['package tvc09abi', '', 'import "unsafe"', '', 'var _ unsafe.Pointer', '',
          'func f32from(b uint32) float32 { return *(*float32)(unsafe.Pointer(&b)) }',
          'func f64from(b uint64) float64 { return *(*float64)(unsafe.Pointer(&b)) }',
          'func f32bits(f float32) uint32 { return *(*uint32)(unsafe.Pointer(&f)) }',
          'func f64bits(f float64) uint64 { return *(*uint64)(unsafe.Pointer(&f)) }',
          'func mix(a, v uint64) uint64 { return (a<<7 | a>>57) ^ v }', '']
    c = ['#include <stdint.h>', '#include <string.h>', '',
         'static uint32_t f32bits(float f) { uint32_t b; memcpy(&b, &f, 4); return b; }',
         'static uint64_t f64bits(double f) { uint64_t b; memcpy(&b, &f, 8); return b; }',
         'static uint64_t mix(uint64_t a, uint64_t v) { return (a << 7 | a >> 57) ^ v; }',
         'static float f32from(uint32_t b) { float f; memcpy(&f, &b, 4); return f; }',
         'static double f64from(uint64_t b) { double f; memcpy(&f, &b, 8); return f; }', '']
    meta = {}
    for i, sh in enumerate(shapes(tier, seed)):
        lv = leaves(sh)
        n = len(lv)
        desc = json.dumps(sh)
        go.append('// shape %d: %s' % (i, desc))
        go.append('type S%d struct {' % i)
        for k, m in enumerate(sh):
            go.append('\tF%d %s' % (k, go_type(m, i, k)))
        go.append('}')
        c.append('/* shape %d: %s */' % (i, desc))
        c.append('typedef struct { %s } S%d;' % (' '.join(c_member(m, k) for k, m in enumerate(sh)), i))
        vs = ', '.join('v%d' % k for k in range(n))
        vdecl = ', '.join('v%d' % k for k in range(n)) + ' uint64'
        cvdecl = ', '.join('uint64_t v%d' % k for k in range(n))
        # constructors and sums on both sides
        go.append('func mk%d(%s) (s S%d) {' % (i, vdecl, i))
        for k, (p, g, _) in enumerate(lv):
            go.append('\t%s = %s' % (g, go_from_bits(p, 'v%d' % k)))
        go.append('\treturn\n}')
        go.append('func sum%d(pre int32, s S%d, post int64) uint64 {' % (i, i))
        go.append('\ta := mix(0, uint64(uint32(pre)))')
        for p, g, _ in lv:
            go.append('\ta = mix(a, %s)' % go_bits(p, g))
        go.append('\treturn mix(a, uint64(post))\n}')
        c.append('static S%d mk%d(%s) { S%d s; memset(&s, 0, sizeof s);' % (i, i, cvdecl, i))
        for k, (p, _, ce) in enumerate(lv):
            c.append('  ' + c_from_bits(p, 'v%d' % k, ce))
        c.append('  return s; }')
        c.append('static uint64_t sum%d(int32_t pre, S%d s, int64_t post) { uint64_t a = mix(0, (uint64_t)(uint32_t)pre);' % (i, i))
        for p, _, ce in lv:
            c.append('  a = mix(a, %s);' % c_bits(p, ce))
        c.append('  return mix(a, (uint64_t)post); }')
        # 1. Go -> C argument
        go += ['//go:linkname c_sum_%d C.c_sum_%d' % (i, i), 'func c_sum_%d(pre int32, s S%d, post int64) uint64' % (i, i),
               'func CheckArg%d(%s, pre int32, post int64) bool {' % (i, vdecl),
               '\ts := mk%d(%s)' % (i, vs), '\treturn c_sum_%d(pre, s, post) == sum%d(pre, s, post)\n}' % (i, i)]
        c.append('uint64_t c_sum_%d(int32_t pre, S%d s, int64_t post) { return sum%d(pre, s, post); }' % (i, i, i))
        # 1b. the same with the integer / the SSE argument registers nearly used up
        # (a struct that no longer fits the remaining registers goes to memory as a whole)
        go += ['//go:linkname c_sumi_%d C.c_sumi_%d' % (i, i), 'func c_sumi_%d(a1, a2, a3, a4, a5 int64, s S%d, post int64) uint64' % (i, i),
               'func CheckArgI%d(%s, pre int32, post int64) bool {' % (i, vdecl),
               '\ts := mk%d(%s)' % (i, vs),
               '\twant := mix(mix(mix(mix(sum%d(pre, s, post), 2), 3), uint64(post)), 5)' % i,
               '\treturn c_sumi_%d(int64(pre), 2, 3, post, 5, s, post) == want\n}' % i,
               '//go:linkname c_sumf_%d C.c_sumf_%d' % (i, i), 'func c_sumf_%d(d1, d2, d3, d4, d5, d6, d7 float64, s S%d, post int64) uint64' % (i, i),
               'func CheckArgF%d(%s, pre int32, post int64) bool {' % (i, vdecl),
               '\ts := mk%d(%s)' % (i, vs),
               '\td, e := f64from(uint64(post)), f64from(uint64(uint32(pre)))',
               '\twant := sum%d(0, s, post)' % i,
               '\tfor _, x := range [7]float64{d, e, d, e, d, e, d} {\n\t\twant = mix(want, f64bits(x))\n\t}',
               '\treturn c_sumf_%d(d, e, d, e, d, e, d, s, post) == want\n}' % i]
        c.append('uint64_t c_sumi_%d(int64_t a1, int64_t a2, int64_t a3, int64_t a4, int64_t a5, S%d s, int64_t post) { return mix(mix(mix(mix(sum%d((int32_t)a1, s, post), (uint64_t)a2), (uint64_t)a3), (uint64_t)a4), (uint64_t)a5); }' % (i, i, i))
        c.append('uint64_t c_sumf_%d(double d1, double d2, double d3, double d4, double d5, double d6, double d7, S%d s, int64_t post) { uint64_t r = sum%d(0, s, post); r = mix(r, f64bits(d1)); r = mix(r, f64bits(d2)); r = mix(r, f64bits(d3)); r = mix(r, f64bits(d4)); r = mix(r, f64bits(d5)); r = mix(r, f64bits(d6)); r = mix(r, f64bits(d7)); return r; }' % (i, i, i))
        # 2. C -> Go result
        go += ['//go:linkname c_make_%d C.c_make_%d' % (i, i), 'func c_make_%d(%s) S%d' % (i, vdecl, i),
               'func CheckRet%d(%s) bool {' % (i, vdecl),
               '\treturn sum%d(1, c_make_%d(%s), 2) == sum%d(1, mk%d(%s), 2)\n}' % (i, i, vs, i, i, vs)]
        c.append('S%d c_make_%d(%s) { return mk%d(%s); }' % (i, i, cvdecl, i, vs))
        # 3. C calls back into Go with the struct as argument, 4. and takes the struct as the callback's result
        go += ['//llgo:type C', 'type CbA%d func(pre int32, s S%d, post int64) uint64' % (i, i),
               '//llgo:type C', 'type CbR%d func(%s) S%d' % (i, vdecl, i),
               '//go:linkname c_callarg_%d C.c_callarg_%d' % (i, i), 'func c_callarg_%d(cb CbA%d, %s, pre int32, post int64) uint64' % (i, i, vdecl),
               '//go:linkname c_callret_%d C.c_callret_%d' % (i, i), 'func c_callret_%d(cb CbR%d, %s) uint64' % (i, i, vdecl),
               'func CheckCbArg%d(%s, pre int32, post int64) bool {' % (i, vdecl),
               '\treturn c_callarg_%d(sum%d, %s, pre, post) == sum%d(pre, mk%d(%s), post)\n}' % (i, i, vs, i, i, vs),
               'func CheckCbRet%d(%s) bool {' % (i, vdecl),
               '\treturn c_callret_%d(mk%d, %s) == sum%d(3, mk%d(%s), 4)\n}' % (i, i, vs, i, i, vs), '']
        c.append('uint64_t c_callarg_%d(uint64_t (*cb)(int32_t, S%d, int64_t), %s, int32_t pre, int64_t post) { return cb(pre, mk%d(%s), post); }' % (i, i, cvdecl, i, vs))
        c.append('uint64_t c_callret_%d(S%d (*cb)(%s), %s) { return sum%d(3, cb(%s), 4); }' % (i, i, ', '.join(['uint64_t'] * n), cvdecl, i, vs))
        # 5. x = f(&x): the C function reads its argument while it builds the by-value result;
        # the result must replace *p only after the call (through a pointer and for a package-level variable)
        if n >= 2:
            go += ['//go:linkname c_rot_%d C.c_rot_%d' % (i, i), 'func c_rot_%d(p *S%d) S%d' % (i, i, i),
                   'func rot%d(s S%d) (r S%d) {' % (i, i, i)]
            rl = leaves(sh, 'r', 'r')
            for k in range(n):
                src = lv[(k + 1) % n]
                go.append('\t%s = %s' % (rl[k][1], go_from_bits(lv[k][0], go_bits(src[0], src[1]))))
            go += ['\treturn\n}',
                   'func inplace%d(p *S%d) { *p = c_rot_%d(p) }' % (i, i, i),
                   'var g%d S%d' % (i, i),
                   'func CheckInPlace%d(%s) bool {' % (i, vdecl),
                   '\ts := mk%d(%s)' % (i, vs), '\twant := sum%d(1, rot%d(s), 2)' % (i, i),
                   '\tinplace%d(&s)' % i,
                   '\tg%d = mk%d(%s)' % (i, i, vs), '\tg%d = c_rot_%d(&g%d)' % (i, i, i),
                   '\treturn sum%d(1, s, 2) == want && sum%d(1, g%d, 2) == want\n}' % (i, i, i), '']
            c.append('S%d c_rot_%d(const S%d *p) { return (S%d)%s; }' % (i, i, i, i, c_rot_init(sh)))
            meta['CheckInPlace%d' % i] = {'params': [['v%d' % k, 'uint64'] for k in range(n)], 'result': 'bool', 'shape': desc + ' x = f(&x)'}
        c.append('')
        pv = [['v%d' % k, 'uint64'] for k in range(n)]
        meta['CheckArg%d' % i] = {'params': pv + [['pre', 'int32'], ['post', 'int64']], 'result': 'bool', 'shape': desc}
        meta['CheckRet%d' % i] = {'params': pv, 'result': 'bool', 'shape': desc}
        meta['CheckArgI%d' % i] = {'params': pv + [['pre', 'int32'], ['post', 'int64']], 'result': 'bool', 'shape': desc + ' after 5 integer arguments'}
        meta['CheckArgF%d' % i] = {'params': pv + [['pre', 'int32'], ['post', 'int64']], 'result': 'bool', 'shape': desc + ' after 7 double arguments'}
        meta['CheckCbArg%d' % i] = {'params': pv + [['pre', 'int32'], ['post', 'int64']], 'result': 'bool', 'shape': desc}
        meta['CheckCbRet%d' % i] = {'params': pv, 'result': 'bool', 'shape': desc}
    # scalars narrower than a register: the producer of the value extends it
    go += ['//go:linkname c_small C.c_small', 'func c_small(a int8, b uint8, c int16, d uint16) int64',
           'func CheckSmallArgs(x uint64) bool {',
           '\ta, b, c, d := int8(x), uint8(x>>8), int16(x>>16), uint16(x>>32)',
           '\treturn c_small(a, b, c, d) == int64(a)+int64(b)*1000+int64(c)*1000000+int64(d)*10000000000\n}',
           '//go:linkname c_narrow8 C.c_narrow8', 'func c_narrow8(x int64) int8',
           '//go:linkname c_narrow16 C.c_narrow16', 'func c_narrow16(x int64) uint16',
           'func CheckSmallRet(x int64) bool { return int64(c_narrow8(x)) == int64(int8(x)) && uint64(c_narrow16(x)) == uint64(uint16(x)) }',
           '//llgo:type C', 'type CbSmall func(x int64) int8',
           'func narrow8(x int64) int8 { return int8(x) }',
           '//go:linkname c_callsmall C.c_callsmall', 'func c_callsmall(cb CbSmall, x int64) int64',
           'func CheckSmallCbRet(x int64) bool { return c_callsmall(narrow8, x) == int64(int8(x)) }', '']
    c += ['int64_t c_small(int8_t a, uint8_t b, int16_t c, uint16_t d) { return (int64_t)a + (int64_t)b * 1000 + (int64_t)c * 1000000 + (int64_t)d * 10000000000LL; }',
          'int8_t c_narrow8(int64_t x) { return (int8_t)x; }', 'uint16_t c_narrow16(int64_t x) { return (uint16_t)x; }',
          'int64_t c_callsmall(int8_t (*cb)(int64_t), int64_t x) { return cb(x); }', '']
    meta['CheckSmallArgs'] = {'params': [['x', 'uint64']], 'result': 'bool', 'shape': 'scalars int8,uint8,int16,uint16 as arguments'}
    meta['CheckSmallRet'] = {'params': [['x', 'int64']], 'result': 'bool', 'shape': 'scalars int8,uint16 as C results'}
    meta['CheckSmallCbRet'] = {'params': [['x', 'int64']], 'result': 'bool', 'shape': 'int8 as the result of a Go callback'}
    open(os.path.join(out, 'abi.go'), 'w').write('\n'.join(go) + '\n')
    open(os.path.join(out, 'c', 'wrap.c'), 'w').write('\n'.join(c) + '\n')
    open(os.path.join(out, 'go.mod'), 'w').write('module tvc09abi\n\ngo 1.24\n')
    json.dump(meta, open(os.path.join(out, 'meta.json'), 'w'))
    print(len(meta))


main()
