package runtime

import "unsafe"

const cstrN = 4 // string length bound (bytes)

func cb(p unsafe.Pointer, i int) byte { return *(*byte)(unsafe.Add(p, i)) }

// mkString: an arbitrary String of 0..cstrN bytes (contents symbolic).
func mkString(name string, noNul bool) String {
	base := nd_alloc(name, cstrN)
	n := nd_int(name + ".len")
	nd_assume(0 <= n && n <= cstrN)
	if noNul {
		for i := 0; i < cstrN; i++ {
			nd_assume(i >= n || cb(base, i) != 0)
		}
	}
	return String{base, n}
}

func checkCStr(p *int8, s String, id string) {
	var diff byte
	for i := 0; i < cstrN; i++ {
		if i < s.len {
			diff |= cb(unsafe.Pointer(p), i) ^ cb(s.data, i)
		}
	}
	nd_assert(diff == 0, id+".bytes")
	nd_assert(cb(unsafe.Pointer(p), s.len) == 0, id+".nul")
}

// Go string -> C buffer with arbitrary previous contents (a reused stack slot
// or heap block): exact bytes followed by the terminating NUL.
func H_cstrcopy() {
	s := mkString("s", false)
	dest := nd_alloc("dest", cstrN+1)
	p := CStrCopy(dest, s)
	nd_assert(unsafe.Pointer(p) == dest, "C09.cstrcopy.ret")
	checkCStr(p, s, "C09.cstrcopy")
	nd_reach("C09.cstrcopy")
}

// the zero String (nil data pointer)
func H_cstrcopy_zero() {
	dest := nd_alloc("dest", 2)
	p := CStrCopy(dest, String{})
	nd_assert(cb(unsafe.Pointer(p), 0) == 0, "C09.cstrcopy.zero.nul")
	nd_reach("C09.cstrcopy.zero")
}

func H_cstrdup() {
	s := mkString("s", false)
	p := CStrDup(s)
	checkCStr(p, s, "C09.cstrdup")
	nd_reach("C09.cstrdup")
}

func H_cstring() {
	s := mkString("s", false)
	p := CString(*(*string)(unsafe.Pointer(&s)))
	checkCStr(p, s, "C09.cstring")
	nd_reach("C09.cstring")
}

// Go -> C -> Go round trip of a string without interior NUL
func H_roundtrip() {
	s := mkString("s", true)
	r := StringFromCStr(CStrDup(s))
	nd_assert(r.len == s.len, "C09.roundtrip.len")
	var diff byte
	for i := 0; i < cstrN; i++ {
		if i < s.len {
			diff |= cb(r.data, i) ^ cb(s.data, i)
		}
	}
	nd_assert(diff == 0, "C09.roundtrip.bytes")
	nd_reach("C09.roundtrip")
}

func H_roundtrip_cgo() {
	s := mkString("s", true)
	r := GoString(CString(*(*string)(unsafe.Pointer(&s))))
	nd_assert(len(r) == s.len, "C09.roundtrip.cgo.len")
	var diff byte
	for i := 0; i < cstrN; i++ {
		if i < s.len {
			diff |= r[i] ^ cb(s.data, i)
		}
	}
	nd_assert(diff == 0, "C09.roundtrip.cgo.bytes")
	nd_reach("C09.roundtrip.cgo")
}

// C string (NUL somewhere in the buffer) -> Go string
func H_gostring() {
	buf := nd_alloc("c", cstrN+1)
	k := nd_int("k")
	nd_assume(0 <= k && k <= cstrN)
	for i := 0; i <= cstrN; i++ {
		nd_assume((i >= k || cb(buf, i) != 0) && (i != k || cb(buf, i) == 0))
	}
	r := GoString((*int8)(buf))
	nd_assert(len(r) == k, "C09.gostring.len")
	var diff byte
	for i := 0; i < cstrN; i++ {
		if i < k {
			diff |= r[i] ^ cb(buf, i)
		}
	}
	nd_assert(diff == 0, "C09.gostring.bytes")
	r2 := StringFromCStr((*int8)(buf))
	nd_assert(r2.len == k, "C09.fromcstr.len")
	nd_reach("C09.gostring")
}

// Go byte slice -> C buffer (C.CBytes) and back (C.GoBytes)
func H_cbytes() {
	b := nd_bytes("b", cstrN)
	n := nd_int("n")
	nd_assume(0 <= n && n <= cstrN)
	b = b[:n]
	panicked := nd_try(func() {
		p := CBytes(b)
		g := GoBytes(p, n)
		nd_assert(len(g) == n, "C09.cbytes.len")
		var diff byte
		for i := 0; i < cstrN; i++ {
			if i < n {
				diff |= g[i] ^ b[i]
			}
		}
		nd_assert(diff == 0, "C09.cbytes.bytes")
	})
	nd_assert(!panicked, "C09.cbytes.nopanic")
	nd_reach("C09.cbytes")
}
