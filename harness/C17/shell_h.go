package shellparse

import "unicode/utf8"

// ndArg: an argument of up to n symbolic runes.  Runes range over all of
// Latin-1 (every ASCII byte incl. space, tab, both quotes, backslash, dash,
// dollar; U+0085 and U+00A0 spaces; 2-byte encodings) plus three wide runes.
func ndArg(name string, n int) string {
	var b []byte
	for i := 0; i < n; i++ {
		if !nd_bool(name + ".more") {
			break
		}
		r := nd_rune(name + ".r")
		nd_assume((r >= 0 && r <= 0xFF) || r == 0x2003 || r == 0x3000 || r == 0x4E2D)
		b = utf8.AppendRune(b, r)
	}
	return string(b)
}

// dq is the documented double-quote form: wrap in ", escape " and \ with \.
func dq(s string) string {
	b := []byte{'"'}
	for i := 0; i < len(s); i++ {
		if s[i] == '"' || s[i] == '\\' {
			b = append(b, '\\')
		}
		b = append(b, s[i])
	}
	return string(append(b, '"'))
}

func sameArgs(got []string, err error, want ...string) bool {
	if err != nil || len(got) != len(want) {
		return false
	}
	ok := true
	for i := range want {
		if got[i] != want[i] {
			ok = false
		}
	}
	return ok
}

func shellDq1(n int) {
	a := ndArg("a", n)
	got, err := Parse(dq(a))
	nd_assert(sameArgs(got, err, a), "C17.shell.dq")
	nd_reach("C17.shell.dq1")
}

func shellDq2(n, m int) {
	a := ndArg("a", n)
	b := ndArg("b", m)
	got, err := Parse(dq(a) + " " + dq(b))
	nd_assert(sameArgs(got, err, a, b), "C17.shell.dq")
	nd_reach("C17.shell.dq2")
}

// Parse(dq(a)) == [a] for every argument of <= 2 (quick) / 3 (thorough) runes
func H_shell_dq1_2() { shellDq1(2) }
func H_shell_dq1_3() { shellDq1(3) }

// two arguments joined by one space
func H_shell_dq2_11() { shellDq2(1, 1) }
func H_shell_dq2_21() { shellDq2(2, 1) }

// H_shell_sq: single-quote form for arguments without a single quote.
func H_shell_sq() {
	a := ndArg("a", 2)
	for i := 0; i < len(a); i++ {
		nd_assume(a[i] != '\'')
	}
	got, err := Parse("'" + a + "'")
	nd_assert(sameArgs(got, err, a), "C17.shell.sq")
	nd_reach("C17.shell.sq")
}

// H_shell_unterminated: an opening quote that is never closed is an error,
// never a silently altered list.
func H_shell_unterminated() {
	a := ndArg("a", 2)
	for i := 0; i < len(a); i++ {
		nd_assume(a[i] != '"' && a[i] != '\\')
	}
	got, err := Parse("x \"" + a)
	nd_assert(err != nil && got == nil, "C17.shell.unterminated")
	nd_reach("C17.shell.unterminated")
}

// plainArg: a non-empty argument that needs no quoting: no white space
// (unicode.IsSpace over the rune range of ndArg), no quote, no backslash.
func plainArg(name string, n int) string {
	var b []byte
	for i := 0; i < n; i++ {
		if i > 0 && !nd_bool(name+".more") {
			break
		}
		r := nd_rune(name + ".r")
		nd_assume((r > 0x20 && r <= 0xFF && r != 0x7F) || r == 0x4E2D)
		nd_assume(r != 0x85 && r != 0xA0 && r != '"' && r != '\'' && r != '\\')
		b = utf8.AppendRune(b, r)
	}
	return string(b)
}

// H_shell_plain: unquoted arguments separated by a blank, a tab or U+00A0 come
// back as they went in (a multi-byte rune is never split at one of its bytes)
func H_shell_plain() {
	a := plainArg("a", 2)
	b := plainArg("b", 2)
	sep := " "
	switch nd_int("sep") {
	case 1:
		sep = "\t"
	case 2:
		sep = " "
	}
	got, err := Parse(a + sep + b)
	nd_assert(sameArgs(got, err, a, b), "C17.shell.plain")
	nd_reach("C17.shell.plain")
}
