package buildtags

// parseBuildTags: "-tags x" and "-tags=x" carry the same list; the list is split
// at commas (and blanks), duplicates are dropped, order is kept.

func tagByte(c byte) bool { return c != ',' && c != ' ' }

func ndTag(name string, n int) string {
	s := nd_string(name, n)
	nd_assume(len(s) > 0)
	for i := 0; i < len(s); i++ {
		nd_assume(tagByte(s[i]))
	}
	return s
}

func H_tags_two() {
	a, b := ndTag("a", 2), ndTag("b", 2)
	sep := nd_uint8("sep")
	nd_assume(sep == ',' || sep == ' ')
	list := a + string([]byte{sep}) + b
	g1 := parseBuildTags([]string{"-tags", list})
	g2 := parseBuildTags([]string{"-tags=" + list})
	if a == b {
		nd_assert(len(g1) == 1 && g1[0] == a, "C17.tags.dedup")
	} else {
		nd_assert(len(g1) == 2 && g1[0] == a && g1[1] == b, "C17.tags.split")
	}
	nd_assert(len(g1) == len(g2), "C17.tags.forms")
	for i := 0; i < len(g1) && i < len(g2); i++ {
		nd_assert(g1[i] == g2[i], "C17.tags.forms")
	}
	nd_reach("C17.tags.two")
}

// other flags are ignored, also when they look like tag values
func H_tags_other_flags() {
	a := ndTag("a", 2)
	x := nd_string("x", 3)
	nd_assume(x != "-tags" && !(len(x) >= 6 && x[:6] == "-tags="))
	g := parseBuildTags([]string{x, "-tags", a, x})
	nd_assert(len(g) == 1 && g[0] == a, "C17.tags.otherflags")
	nd_reach("C17.tags.other")
}
