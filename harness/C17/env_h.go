package env

// ExpandEnvWithDefault substitutes exactly the referenced values.

func noBrace(s string) {
	for i := 0; i < len(s); i++ {
		nd_assume(s[i] != '{' && s[i] != '}')
	}
}

// one variable: pre{k}post -> pre v post for every value v (braces included)
func H_expand_one() {
	nd_maporder(0)
	pre, post := nd_string("pre", 2), nd_string("post", 2)
	noBrace(pre)
	noBrace(post)
	v := nd_string("v", 3)
	got := ExpandEnvWithDefault(pre+"{k}"+post, map[string]string{"k": v})
	nd_assert(got == pre+v+post, "C17.expand.exact")
	nd_reach("C17.expand.one")
}

// an unreferenced variable changes nothing; an unknown reference stays as written
func H_expand_unreferenced() {
	nd_maporder(0)
	pre := nd_string("pre", 3)
	noBrace(pre)
	v := nd_string("v", 2)
	got := ExpandEnvWithDefault(pre+"{u}", map[string]string{"k": v})
	nd_assert(got == pre+"{u}", "C17.expand.unreferenced")
	nd_reach("C17.expand.unreferenced")
}

// {} takes the default value, named variables their own
func H_expand_default() {
	nd_maporder(0)
	d, v := nd_string("d", 2), nd_string("v", 2)
	noBrace(d)
	nd_assume(len(d) > 0)
	got := ExpandEnvWithDefault("a{}b{k}", map[string]string{"k": v}, d)
	nd_assert(got == "a"+d+"b"+v, "C17.expand.default")
	nd_reach("C17.expand.default")
}

// two variables: the result is the same whatever order the map is ranged over,
// and each reference is replaced by exactly its own value
func H_expand_two() {
	va, vb := nd_string("va", 3), nd_string("vb", 3)
	envs := map[string]string{"a": va, "b": vb}
	nd_maporder(0)
	r1 := ExpandEnvWithDefault("{a}-{b}", envs)
	nd_maporder(1)
	r2 := ExpandEnvWithDefault("{a}-{b}", envs)
	nd_maporder(0)
	if nd_native() {
		// Go randomises the map order per range statement: repeat
		for i := 0; i < 200 && r1 == r2; i++ {
			r2 = ExpandEnvWithDefault("{a}-{b}", envs)
		}
	}
	nd_assert(r1 == r2, "C17.expand.orderfree")
	nd_assert(r1 == va+"-"+vb, "C17.expand.exact2")
	nd_reach("C17.expand.two")
}

// a literal '{' in front of a placeholder (JSON snippets, linker scripts, {{x}}):
// the placeholder is still expanded and the brace stays
func H_expand_literal_brace() {
	nd_maporder(0)
	x := nd_string("x", 2)
	for i := 0; i < len(x); i++ {
		nd_assume(x[i] != '}')
	}
	nd_assume(x != "k")
	v := nd_string("v", 2)
	got := ExpandEnvWithDefault("{"+x+"{k}}", map[string]string{"k": v})
	nd_assert(got == "{"+x+v+"}", "C17.expand.literalbrace")
	d := nd_string("d", 2)
	noBrace(d)
	got2 := ExpandEnvWithDefault("{{}", map[string]string{"k": v}, d)
	nd_assert(got2 == "{"+d, "C17.expand.literalbrace.default")
	nd_reach("C17.expand.literalbrace")
}
