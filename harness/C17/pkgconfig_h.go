package safesplit

func ndBody(name string, n int) string {
	s := nd_string(name, n)
	return s
}

// esc is the documented pkg-config escaping: blanks get a backslash.
func esc(s string) string {
	var b []byte
	for i := 0; i < len(s); i++ {
		if s[i] == ' ' || s[i] == '\t' {
			b = append(b, '\\')
		}
		b = append(b, s[i])
	}
	return string(b)
}

func isBlank(c byte) bool { return c == ' ' || c == '\t' }

// isEdgeSpace: bytes strings.TrimSpace may strip at the edge of a body (ASCII
// white space; bytes >= 0x80 can be part of U+0085 / U+00A0 / U+2000.. spaces).
func isEdgeSpace(c byte) bool { return c == ' ' || (c >= 9 && c <= 13) || c >= 0x80 }

// bodyOK is the domain on which the documented format is invertible: a body
// does not start with '-' (it would read as the next flag), does not end in a
// backslash (it would escape the separator).  Leading/trailing blanks are
// handled separately (known finding C17.pkgconfig.edgeblank).
func bodyOK(s string, edgeBlanks bool) {
	if len(s) > 0 {
		nd_assume(s[0] != '-')
		nd_assume(s[len(s)-1] != '\\')
		if !edgeBlanks {
			nd_assume(!isEdgeSpace(s[0]) && !isEdgeSpace(s[len(s)-1]))
		}
	}
}

func ndLetter(name string) byte {
	c := nd_uint8(name)
	nd_assume((c >= 'a' && c <= 'z') || (c >= 'A' && c <= 'Z'))
	return c
}

// H_pkgconfig1: one flag with a body of <= 3 arbitrary bytes.
func H_pkgconfig1() {
	l := ndLetter("l")
	body := ndBody("b", 3)
	bodyOK(body, false)
	got := SplitPkgConfigFlags("-" + string([]byte{l}) + esc(body))
	nd_assert(len(got) == 1 && got[0] == "-"+string([]byte{l})+body, "C17.pkgconfig.roundtrip")
	nd_reach("C17.pkgconfig1")
}

// H_pkgconfig2: two flags (bodies <= 2 and <= 1 bytes) joined by one space.
func H_pkgconfig2() {
	l1, l2 := ndLetter("l1"), ndLetter("l2")
	b1, b2 := ndBody("b1", 2), ndBody("b2", 1)
	bodyOK(b1, false)
	bodyOK(b2, false)
	f1 := "-" + string([]byte{l1}) + b1
	f2 := "-" + string([]byte{l2}) + b2
	got := SplitPkgConfigFlags("-" + string([]byte{l1}) + esc(b1) + " -" + string([]byte{l2}) + esc(b2))
	nd_assert(len(got) == 2 && got[0] == f1 && got[1] == f2, "C17.pkgconfig.roundtrip")
	nd_reach("C17.pkgconfig2")
}

// H_pkgconfig_edgeblank: bodies that begin or end with an (escaped) blank.
func H_pkgconfig_edgeblank() {
	l := ndLetter("l")
	body := ndBody("b", 2)
	bodyOK(body, true)
	nd_assume(len(body) > 0 && (isBlank(body[0]) || isBlank(body[len(body)-1])))
	got := SplitPkgConfigFlags("-" + string([]byte{l}) + esc(body))
	nd_assert(len(got) == 1 && got[0] == "-"+string([]byte{l})+body, "C17.pkgconfig.edgeblank")
	nd_reach("C17.pkgconfig.edgeblank")
}
