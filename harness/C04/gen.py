#!/usr/bin/env python3
"""C04 corpus: functions built from a defer-shape grammar."""
import json, os, random, sys

PRE = '''package tvc04

import _ "unsafe"

//go:linkname trace C.trace
func trace(x int)

func mark55() { trace(55) }

func helperRecover() int {
	if e := recover(); e != nil {
		return 1
	}
	return 0
}

func inner(c bool, p bool, a int) (r int) {
	defer trace(500 + a)
	if c {
		defer func() { r += 1000 }()
	}
	if p {
		panic(501)
	}
	return a + 1
}

func innerRecovers(p bool, a int) (r int) {
	defer func() {
		if e := recover(); e != nil {
			trace(600)
			r = -6
		}
	}()
	if p {
		panic(601)
	}
	return a + 2
}

'''


def gen_shape(rnd, idx):
    """Returns Go source of one function."""
    items = []
    k = 0
    n_items = rnd.randint(3, 6)
    kinds = ['D', 'C', 'L', 'P', 'R', 'F', 'A', 'CL', 'N', 'NR', 'D']
    # ('recover_indirect' is covered by the hand-written RecoverIndirect only: it is a recorded known finding)
    head = rnd.choice(['none', 'recover', 'recover_result', 'repanic', 'result_only', 'recover'])
    body = []
    if head == 'recover':
        body.append('defer func() {\n\t\tif e := recover(); e != nil {\n\t\t\ttrace(900)\n\t\t}\n\t}()')
    elif head == 'recover_result':
        body.append('defer func() {\n\t\tif e := recover(); e != nil {\n\t\t\ttrace(901)\n\t\t\tr = -9\n\t\t}\n\t\tr += 3\n\t}()')
    elif head == 'repanic':
        body.append('defer func() {\n\t\tif e := recover(); e != nil {\n\t\t\ttrace(902)\n\t\t\tpanic(903)\n\t\t}\n\t}()')
    elif head == 'recover_indirect':
        # recover() not called directly by the deferred function: must not stop the panic
        body.append('defer func() {\n\t\ttrace(904 + helperRecover())\n\t}()')
    elif head == 'result_only':
        body.append('defer func() { r *= 2 }()')
    may_panic = False
    for _ in range(n_items):
        k += 1
        t = rnd.choice(kinds)
        # Known finding C04.AlwaysDeferAfterPanicPoint (kept as one hand-written
        # function): once a statement that can panic has been emitted, only
        # conditional / loop defers follow in generated shapes.
        if may_panic and t in ('D', 'CL'):
            t = rnd.choice(['C', 'L', 'A'])
        if t in ('P', 'F', 'N', 'NR'):
            may_panic = True
        if t == 'D':
            body.append('defer trace(%d + a)\n\ta += 7' % (k * 10))
        elif t == 'C':
            body.append('if c1 {\n\t\tdefer trace(%d + a)\n\t}' % (k * 10))
        elif t == 'L':
            body.append('for i := 0; i < n&3; i++ {\n\t\tdefer trace(%d + i)\n\t}' % (k * 10))
        elif t == 'P':
            body.append('if p1 {\n\t\tpanic(%d)\n\t}' % (k * 10))
        elif t == 'R':
            body.append('if c2 {\n\t\treturn %d\n\t}' % (k * 10))
        elif t == 'F':
            body.append('r += s[n&3]')
        elif t == 'A':
            body.append('r = %d + a' % (k * 10))
        elif t == 'CL':
            body.append('defer func() {\n\t\ttrace(%d)\n\t\tr += %d\n\t}()' % (k * 10, k))
        elif t == 'N':
            body.append('r += inner(c2, p1 && c1, a)')
        elif t == 'NR':
            body.append('r += innerRecovers(p1, a)')
    body.append('return r + a')
    return 'func Shape%d(a int, c1, c2, p1 bool, n int, s []int) (r int) {\n\t%s\n}\n' % (idx, '\n\t'.join(body))


HAND = [
    # (name, source)
    ('ArgTime', 'func ArgTime(a int, c1, c2, p1 bool, n int, s []int) (r int) {\n\tx := a\n\tdefer trace(x)\n\tx += 5\n\tdefer trace(x)\n\tx *= 2\n\treturn x\n}\n'),
    ('LoopDefers', 'func LoopDefers(a int, c1, c2, p1 bool, n int, s []int) (r int) {\n\tfor i := 0; i < n&3; i++ {\n\t\tdefer trace(100 + i)\n\t}\n\tif c1 {\n\t\tdefer trace(200 + a)\n\t}\n\tfor i := 0; i < a&3; i++ {\n\t\tdefer trace(300 + i)\n\t}\n\treturn n\n}\n'),
    ('PanicInDefer', 'func PanicInDefer(a int, c1, c2, p1 bool, n int, s []int) (r int) {\n\tdefer func() {\n\t\tif e := recover(); e != nil {\n\t\t\ttrace(1)\n\t\t\tr = 11\n\t\t}\n\t}()\n\tdefer trace(2)\n\tdefer func() {\n\t\tif p1 {\n\t\t\tpanic(3)\n\t\t}\n\t}()\n\tdefer trace(4)\n\tif c1 {\n\t\tpanic(5)\n\t}\n\treturn a\n}\n'),
    ('RecoverNil', 'func RecoverNil(a int, c1, c2, p1 bool, n int, s []int) (r int) {\n\tdefer func() {\n\t\te := recover()\n\t\tif e == nil {\n\t\t\ttrace(7)\n\t\t} else {\n\t\t\ttrace(8)\n\t\t\tr = 1\n\t\t}\n\t}()\n\tif p1 {\n\t\tpanic(9)\n\t}\n\treturn a\n}\n'),
    ('FaultRecovered', 'func FaultRecovered(a int, c1, c2, p1 bool, n int, s []int) (r int) {\n\tdefer func() {\n\t\tif e := recover(); e != nil {\n\t\t\ttrace(70)\n\t\t\tr = -1\n\t\t}\n\t}()\n\tdefer trace(71)\n\tr = s[n&3] + s[a&3]\n\ttrace(72)\n\treturn r\n}\n'),
    ('NestedUnwind', 'func NestedUnwind(a int, c1, c2, p1 bool, n int, s []int) (r int) {\n\tdefer trace(80)\n\tdefer func() {\n\t\tif e := recover(); e != nil {\n\t\t\ttrace(81)\n\t\t\tr = 82\n\t\t}\n\t}()\n\tr = inner(c1, p1, a)\n\ttrace(83)\n\tr += innerRecovers(c2, a)\n\treturn r\n}\n'),
    ('AlwaysDeferAfterPanicPoint', 'func AlwaysDeferAfterPanicPoint(a int, c1, c2, p1 bool, n int, s []int) (r int) {\n\tdefer func() {\n\t\tif e := recover(); e != nil {\n\t\t\ttrace(902)\n\t\t}\n\t}()\n\tdefer func() { trace(20) }()\n\tr += inner(false, p1, a)\n\tdefer func() { trace(60) }()\n\treturn r\n}\n'),
    # a panic raised inside a deferred call while an earlier panic is still unrecovered
    # replaces it: recover() returns the newest value
    ('RepanicValue', 'func RepanicValue(a int, c1, c2, p1 bool, n int, s []int) (r int) {\n\tdefer func() {\n\t\tif e := recover(); e != nil {\n\t\t\ttrace(60)\n\t\t\tr = e.(int)\n\t\t}\n\t}()\n\tdefer func() {\n\t\ttrace(61)\n\t\tif c1 {\n\t\t\tpanic(a + 2)\n\t\t}\n\t}()\n\ttrace(62)\n\tpanic(a + 1)\n}\n'),
    ('RepanicTriple', 'func RepanicTriple(a int, c1, c2, p1 bool, n int, s []int) (r int) {\n\tdefer func() {\n\t\te := recover()\n\t\ttrace(63)\n\t\tif v, ok := e.(int); ok {\n\t\t\tr = v\n\t\t}\n\t}()\n\tdefer func() { panic(a + 3) }()\n\tdefer func() {\n\t\tif c2 {\n\t\t\tpanic(a + 2)\n\t\t}\n\t}()\n\tif p1 {\n\t\tpanic(a + 1)\n\t}\n\treturn 5\n}\n'),
    ('RecoverThenPanic', 'func RecoverThenPanic(a int, c1, c2, p1 bool, n int, s []int) (r int) {\n\tdefer func() {\n\t\tif e := recover(); e != nil {\n\t\t\tr = e.(int) * 10\n\t\t}\n\t}()\n\tdefer func() {\n\t\te := recover()\n\t\ttrace(64)\n\t\tif v, ok := e.(int); ok && c1 {\n\t\t\tpanic(v + 100)\n\t\t}\n\t}()\n\tpanic(a)\n}\n'),
    # loop defers, then a conditional defer of a plain no-argument function, then loop defers
    ('LoopCondPlainLoop', 'func LoopCondPlainLoop(a int, c1, c2, p1 bool, n int, s []int) (r int) {\n\tfor i := 0; i < n&3; i++ {\n\t\tdefer trace(100 + i)\n\t}\n\tif c1 {\n\t\tdefer mark55()\n\t}\n\tfor i := 0; i < a&3; i++ {\n\t\tdefer trace(200 + i)\n\t}\n\tif p1 {\n\t\tpanic(9)\n\t}\n\treturn a\n}\n'),
    # two conditional defers of one branch with a call that may panic between them: the
    # second one must not run (and must not pop the first one's arguments) when it was never reached
    ('CondDefersAroundPanicPoint', 'func CondDefersAroundPanicPoint(a int, c1, c2, p1 bool, n int, s []int) (r int) {\n\tdefer func() {\n\t\tif e := recover(); e != nil {\n\t\t\ttrace(902)\n\t\t}\n\t}()\n\tif c1 {\n\t\tdefer mark55()\n\t\tr += inner(false, p1, a)\n\t\tdefer func() { trace(60) }()\n\t}\n\treturn r\n}\n'),
    ('CondArgDefersAroundPanicPoint', 'func CondArgDefersAroundPanicPoint(a int, c1, c2, p1 bool, n int, s []int) (r int) {\n\tdefer func() {\n\t\tif e := recover(); e != nil {\n\t\t\ttrace(902)\n\t\t}\n\t}()\n\tif c1 {\n\t\tdefer trace(40 + a)\n\t\tif c2 {\n\t\t\tdefer trace(50 + a)\n\t\t}\n\t\tr += inner(false, p1, a)\n\t\tdefer trace(60 + a)\n\t}\n\treturn r\n}\n'),
    ('RecoverIndirect', 'func RecoverIndirect(a int, c1, c2, p1 bool, n int, s []int) (r int) {\n\tdefer func() {\n\t\ttrace(90 + helperRecover())\n\t}()\n\tif p1 {\n\t\tpanic(91)\n\t}\n\treturn a\n}\n'),
]


def main():
    out, tier = sys.argv[1], sys.argv[2]
    # the corpus is fixed (not seeded by VERIF_SEED): llgo's defer lowering has known
    # defects and every failing member of the corpus has been triaged (known_findings.txt)
    rnd = random.Random(1000)
    n = 33 if tier != 'thorough' else 300
    os.makedirs(out, exist_ok=True)
    open(os.path.join(out, 'go.mod'), 'w').write('module tvc04\n\ngo 1.24\n')
    src = [PRE]
    meta = {}
    params = [('a', 'int'), ('c1', 'bool'), ('c2', 'bool'), ('p1', 'bool'), ('n', 'int'), ('s', '[]int')]
    for name, code in HAND:
        src.append(code)
        meta[name] = {'params': params, 'result': 'int', 'group': 'hand'}
    for i in range(n):
        src.append(gen_shape(rnd, i))
        meta['Shape%d' % i] = {'params': params, 'result': 'int', 'group': 'shape'}
    open(os.path.join(out, 'ops.go'), 'w').write('\n'.join(src))
    json.dump(meta, open(os.path.join(out, 'meta.json'), 'w'))
    print(len(meta))


main()
