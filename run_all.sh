#!/bin/bash
# Runs every claimed check once (quick tier by default) and reports exit codes.
cd "$(dirname "$0")"
tier=${1:-quick}
for p in $(python3 -c "import json;print(' '.join(c['property_id'] for c in json.load(open('MANIFEST.json'))['checks']))"); do
  s=$(date +%s)
  ./check $p --tier $tier > /var/tmp/runall_$p.log 2>&1
  rc=$?
  echo "$p exit=$rc $(( $(date +%s) - s ))s $(tail -1 /var/tmp/runall_$p.log | cut -c1-150)"
done
