package smt

import (
	"bufio"
	"fmt"
	"io"
	"os"
	"os/exec"
	"sort"
	"strconv"
	"strings"
	"time"
)

type Result int

const (
	Unsat Result = iota
	Sat
	Unknown
)

func (r Result) String() string { return [...]string{"unsat", "sat", "unknown"}[r] }

// Model maps variable names to values (bool as 0/1).  Raw-sorted variables are
// kept as their printed value in Raw.
type Model struct {
	V   map[string]uint64
	Raw map[string]string
}

type proc struct {
	name string
	argv []string
	cmd  *exec.Cmd
	in   io.WriteCloser
	out  *bufio.Reader
	seq  int
}

// Solver is a portfolio of long-lived solver processes.
type Solver struct {
	procs     []*proc
	TimeoutMs int
	Stats     Stats
	LogDir    string // when set, every query is written there
	LastQuery string
	Incremental bool
	AbsDiv      bool // abstract wide division as UF with concrete-evaluation refinement
	AbsDivRounds int
	AbsDivQueries int
	inc       *incState
}

type Stats struct {
	Queries, Sat, Unsat, Unknown, Errors int
	Fallbacks                           int
	Time                                time.Duration
	MaxTime                             time.Duration
	BySolver                            map[string]int
}

func NewSolver(timeoutMs int) *Solver {
	s := &Solver{TimeoutMs: timeoutMs, Incremental: os.Getenv("SYMX_NO_INC") == ""}
	s.Stats.BySolver = map[string]int{}
	s.procs = []*proc{
		{name: "z3-5.1.0", argv: []string{"z3-new", "-in"}},
		{name: "z3-4.8.12", argv: []string{"z3", "-in"}},
		{name: "cvc5-1.0.3", argv: []string{"cvc5", "--incremental", "--produce-models", "--lang=smt2"}},
	}
	if o := os.Getenv("SYMX_SOLVER_ORDER"); o != "" {
		var ps []*proc
		for _, n := range strings.Split(o, ",") {
			for _, p := range s.procs {
				if strings.HasPrefix(p.name, n) {
					ps = append(ps, p)
				}
			}
		}
		if len(ps) > 0 {
			s.procs = ps
		}
	}
	return s
}

func (s *Solver) Names() []string {
	var r []string
	for _, p := range s.procs {
		r = append(r, p.name)
	}
	return r
}

func (p *proc) start() error {
	p.cmd = exec.Command(p.argv[0], p.argv[1:]...)
	var err error
	p.in, err = p.cmd.StdinPipe()
	if err != nil {
		return err
	}
	o, err := p.cmd.StdoutPipe()
	if err != nil {
		return err
	}
	p.cmd.Stderr = nil
	p.out = bufio.NewReaderSize(o, 1<<20)
	return p.cmd.Start()
}

func (p *proc) stop() {
	if p.cmd != nil {
		p.in.Close()
		p.cmd.Process.Kill()
		p.cmd.Wait()
		p.cmd = nil
	}
}

func (s *Solver) Close() {
	s.incReset()
	for _, p := range s.procs {
		p.stop()
	}
}

// run sends the script and collects output lines until the marker.
func (p *proc) run(script string, hardTimeout time.Duration) ([]string, error) {
	if p.cmd == nil {
		if err := p.start(); err != nil {
			return nil, err
		}
	}
	p.seq++
	marker := fmt.Sprintf("symx-done-%d", p.seq)
	if _, err := io.WriteString(p.in, script+"\n(echo \""+marker+"\")\n"); err != nil {
		p.stop()
		return nil, err
	}
	type res struct {
		lines []string
		err   error
	}
	ch := make(chan res, 1)
	go func() {
		var lines []string
		for {
			l, err := p.out.ReadString('\n')
			if err != nil {
				ch <- res{lines, err}
				return
			}
			l = strings.TrimSpace(l)
			if strings.Trim(l, "\"") == marker {
				ch <- res{lines, nil}
				return
			}
			if l != "" {
				lines = append(lines, l)
			}
		}
	}()
	select {
	case r := <-ch:
		if r.err != nil {
			p.stop()
		}
		return r.lines, r.err
	case <-time.After(hardTimeout):
		p.stop()
		return nil, fmt.Errorf("hard timeout")
	}
}

// Script renders the satisfiability query for the conjunction of asserts.
func Script(asserts []*Term, timeoutMs int, wantModel bool) (string, []*Term) {
	var sb strings.Builder
	sb.WriteString("(reset)\n")
	if wantModel {
		sb.WriteString("(set-option :produce-models true)\n")
	}
	if timeoutMs > 0 {
		fmt.Fprintf(&sb, "(set-option :timeout %d)\n", timeoutMs)
	}
	vars := WriteDefs(&sb, asserts)
	sb.WriteString("(check-sat)\n")
	return sb.String(), vars
}

// WriteDefs declares variables/UFs, defines shared subterms and asserts.
func WriteDefs(sb *strings.Builder, asserts []*Term) []*Term {
	// count references
	refs := map[int]int{}
	var order []*Term
	var vars []*Term
	ufs := map[string]*Term{}
	seen := map[int]bool{}
	var visit func(t *Term)
	visit = func(t *Term) {
		refs[t.ID]++
		if seen[t.ID] {
			return
		}
		seen[t.ID] = true
		for _, a := range t.Args {
			visit(a)
		}
		if t.Op == OVar {
			vars = append(vars, t)
		}
		if t.Op == OUF {
			if _, ok := ufs[t.Name]; !ok {
				ufs[t.Name] = t
			}
		}
		order = append(order, t)
	}
	for _, a := range asserts {
		visit(a)
	}
	sort.Slice(vars, func(i, j int) bool { return vars[i].Name < vars[j].Name })
	for _, v := range vars {
		fmt.Fprintf(sb, "(declare-fun %s () %s)\n", quoteSym(v.Name), sortOf(v))
	}
	var ufn []string
	for n := range ufs {
		ufn = append(ufn, n)
	}
	sort.Strings(ufn)
	for _, n := range ufn {
		u := ufs[n]
		var as []string
		for _, a := range u.Args {
			as = append(as, sortOf(a))
		}
		fmt.Fprintf(sb, "(declare-fun %s (%s) %s)\n", quoteSym(n), strings.Join(as, " "), sortOf(u))
	}
	named := map[int]string{}
	for _, t := range order {
		if len(t.Args) == 0 {
			continue
		}
		if refs[t.ID] > 1 || termSize(t) > 40 {
			name := fmt.Sprintf("t!%d", t.ID)
			fmt.Fprintf(sb, "(define-fun %s () %s ", name, sortOf(t))
			t.write(sb, named, 0)
			sb.WriteString(")\n")
			named[t.ID] = name
		}
	}
	for _, a := range asserts {
		sb.WriteString("(assert ")
		a.write(sb, named, 0)
		sb.WriteString(")\n")
	}
	return vars
}

// termSize is a cheap bounded size estimate used to break up deep terms.
func termSize(t *Term) int {
	n := 1
	var rec func(t *Term, d int)
	rec = func(t *Term, d int) {
		if n > 41 {
			return
		}
		for _, a := range t.Args {
			n++
			if d > 0 {
				rec(a, d-1)
			}
		}
	}
	rec(t, 30)
	return n
}

// Check decides satisfiability of the conjunction.  Any solver error line makes
// the answer Unknown.  On Unknown the next solver of the portfolio is tried.
func (s *Solver) Check(asserts []*Term, wantModel bool) (Result, *Model) {
	// trivial cases
	var as []*Term
	for _, a := range asserts {
		if a.IsFalse() {
			return Unsat, nil
		}
		if !a.IsTrue() {
			as = append(as, a)
		}
	}
	if len(as) == 0 {
		return Sat, &Model{V: map[string]uint64{}, Raw: map[string]string{}}
	}
	t0 := time.Now()
	defer func() {
		d := time.Since(t0)
		s.Stats.Time += d
		if d > s.Stats.MaxTime {
			s.Stats.MaxTime = d
		}
	}()
	s.Stats.Queries++
	if s.AbsDiv && hasWideDiv(as) {
		if r, m, ok := s.checkAbsDiv(as, wantModel); ok {
			if r == Unsat {
				s.Stats.Unsat++
			} else {
				s.Stats.Sat++
			}
			s.Stats.BySolver[s.procs[0].name+"(absdiv)"]++
			return r, m
		}
	}
	if s.Incremental {
		if r, m, ok := s.checkInc(as, wantModel); ok {
			s.Stats.BySolver[s.procs[0].name+"(inc)"]++
			if r == Unsat {
				s.Stats.Unsat++
			} else {
				s.Stats.Sat++
			}
			return r, m
		}
	}
	script, vars := Script(as, s.TimeoutMs, wantModel)
	s.LastQuery = script
	if s.LogDir != "" {
		os.WriteFile(fmt.Sprintf("%s/q%06d.smt2", s.LogDir, s.Stats.Queries), []byte(script), 0644)
	}
	for i, p := range s.procs {
		sc := script
		if wantModel && len(vars) > 0 {
			var sb strings.Builder
			sb.WriteString(sc)
			sb.WriteString("(get-value (")
			for _, v := range vars {
				sb.WriteString(quoteSym(v.Name))
				sb.WriteString(" ")
			}
			sb.WriteString("))\n")
			sc = sb.String()
		}
		if strings.HasPrefix(p.name, "cvc5") {
			sc = strings.Replace(sc, "(reset)\n", "(reset)\n(set-logic ALL)\n", 1)
			sc = strings.Replace(sc, fmt.Sprintf("(set-option :timeout %d)", s.TimeoutMs), fmt.Sprintf("(set-option :tlimit-per %d)", s.TimeoutMs), 1)
		}
		lines, err := p.run(sc, time.Duration(s.TimeoutMs)*time.Millisecond+10*time.Second)
		if i > 0 {
			s.Stats.Fallbacks++
		}
		if err != nil {
			s.Stats.Errors++
			continue
		}
		res := Unknown
		bad := false
		var rest []string
		for _, l := range lines {
			switch {
			case l == "sat":
				res = Sat
			case l == "unsat":
				res = Unsat
			case l == "unknown":
				res = Unknown
			case strings.HasPrefix(l, "(error"):
				// get-value after unsat/unknown legitimately errors
				if !(strings.Contains(l, "model is not available") || strings.Contains(l, "Cannot get value") || strings.Contains(l, "cannot get value") || strings.Contains(l, "unless after a SAT")) {
					bad = true
					if os.Getenv("SYMX_DEBUG") != "" {
						fmt.Fprintf(os.Stderr, "solver %s: %s\n", p.name, l)
					}
				}
			default:
				rest = append(rest, l)
			}
		}
		if bad {
			s.Stats.Errors++
			continue
		}
		if res == Unknown {
			continue
		}
		s.Stats.BySolver[p.name]++
		if res == Unsat {
			s.Stats.Unsat++
			return Unsat, nil
		}
		s.Stats.Sat++
		var m *Model
		if wantModel {
			m = parseModel(strings.Join(rest, " "))
		}
		return Sat, m
	}
	s.Stats.Unknown++
	return Unknown, nil
}

// CheckWith decides with exactly one named solver (used for cross-checking).
func (s *Solver) CheckWith(prefix string, asserts []*Term) Result {
	saved := s.procs
	defer func() { s.procs = saved }()
	var ps []*proc
	for _, p := range saved {
		if strings.HasPrefix(p.name, prefix) {
			ps = append(ps, p)
		}
	}
	if len(ps) == 0 {
		return Unknown
	}
	s.procs = ps
	st := s.Stats
	r, _ := s.Check(asserts, false)
	q := s.Stats.Queries
	s.Stats = st
	s.Stats.Queries = q
	return r
}

// ---- model parsing ------------------------------------------------------

type sexp struct {
	atom string
	list []*sexp
}

func parseSexp(s string, i int) (*sexp, int) {
	for i < len(s) && (s[i] == ' ' || s[i] == '\n' || s[i] == '\t') {
		i++
	}
	if i >= len(s) {
		return nil, i
	}
	if s[i] == '(' {
		e := &sexp{}
		i++
		for {
			for i < len(s) && (s[i] == ' ' || s[i] == '\n' || s[i] == '\t') {
				i++
			}
			if i >= len(s) {
				return e, i
			}
			if s[i] == ')' {
				if e.list == nil {
					e.list = []*sexp{}
				}
				return e, i + 1
			}
			c, j := parseSexp(s, i)
			e.list = append(e.list, c)
			i = j
		}
	}
	j := i
	if s[i] == '|' {
		j = i + 1
		for j < len(s) && s[j] != '|' {
			j++
		}
		j++
		return &sexp{atom: s[i:j]}, j
	}
	for j < len(s) && s[j] != ' ' && s[j] != ')' && s[j] != '(' && s[j] != '\n' {
		j++
	}
	return &sexp{atom: s[i:j]}, j
}

func (e *sexp) String() string {
	if e.list == nil {
		return e.atom
	}
	var ps []string
	for _, c := range e.list {
		ps = append(ps, c.String())
	}
	return "(" + strings.Join(ps, " ") + ")"
}

func parseModel(s string) *Model {
	m := &Model{V: map[string]uint64{}, Raw: map[string]string{}}
	i := 0
	for {
		e, j := parseSexp(s, i)
		if e == nil {
			break
		}
		i = j
		for _, p := range e.list {
			if len(p.list) != 2 {
				continue
			}
			name := strings.Trim(p.list[0].atom, "|")
			v := p.list[1]
			if v.list == nil {
				a := v.atom
				switch {
				case a == "true":
					m.V[name] = 1
				case a == "false":
					m.V[name] = 0
				case strings.HasPrefix(a, "#x"):
					if len(a) <= 18 {
						u, _ := strconv.ParseUint(a[2:], 16, 64)
						m.V[name] = u
					} else {
						m.Raw[name] = a
					}
				case strings.HasPrefix(a, "#b"):
					if len(a) <= 66 {
						u, _ := strconv.ParseUint(a[2:], 2, 64)
						m.V[name] = u
					} else {
						m.Raw[name] = a
					}
				default:
					m.Raw[name] = a
				}
			} else if len(v.list) == 3 && v.list[0].atom == "_" && strings.HasPrefix(v.list[1].atom, "bv") {
				u, _ := strconv.ParseUint(v.list[1].atom[2:], 10, 64)
				m.V[name] = u
			} else {
				m.Raw[name] = v.String()
			}
		}
	}
	return m
}

// ---- concrete evaluation ------------------------------------------------

// Eval evaluates t under the model (missing variables are 0).  ok=false when
// the term contains something that cannot be evaluated (UF, raw, >64 bits).
func Eval(t *Term, m map[string]uint64) (v uint64, ok bool) {
	memo := map[int]uint64{}
	fine := true
	var ev func(t *Term) uint64
	ev = func(t *Term) uint64 {
		if r, ok := memo[t.ID]; ok {
			return r
		}
		var r uint64
		if t.W > 64 || (t.W < 0) {
			fine = false
			return 0
		}
		a := func(i int) uint64 { return ev(t.Args[i]) }
		b2u := func(b bool) uint64 {
			if b {
				return 1
			}
			return 0
		}
		w := t.W
		switch t.Op {
		case OConst:
			r = t.Val
		case OTrue:
			r = 1
		case OFalse:
			r = 0
		case OVar:
			r = m[t.Name] & func() uint64 {
				if w == 0 {
					return 1
				}
				return mask(w)
			}()
		case ONot:
			r = ^a(0)
		case OAnd:
			r = a(0) & a(1)
		case OOr:
			r = a(0) | a(1)
		case OXor:
			r = a(0) ^ a(1)
		case ONeg:
			r = -a(0)
		case OAdd:
			r = a(0) + a(1)
		case OSub:
			r = a(0) - a(1)
		case OMul:
			r = a(0) * a(1)
		case OUDiv:
			r = UDiv(Const(w, a(0)), Const(w, a(1))).Val
		case OURem:
			r = URem(Const(w, a(0)), Const(w, a(1))).Val
		case OSDiv:
			r = SDiv(Const(w, a(0)), Const(w, a(1))).Val
		case OSRem:
			r = SRem(Const(w, a(0)), Const(w, a(1))).Val
		case OShl:
			r = Shl(Const(w, a(0)), Const(w, a(1))).Val
		case OLShr:
			r = LShr(Const(w, a(0)), Const(w, a(1))).Val
		case OAShr:
			r = AShr(Const(w, a(0)), Const(w, a(1))).Val
		case OConcat:
			r = a(0)<<uint(t.Args[1].W) | a(1)
		case OExtract:
			if t.Args[0].W > 64 {
				fine = false
				return 0
			}
			r = a(0) >> uint(t.B)
		case OZExt:
			r = a(0)
		case OSExt:
			r = uint64(sext64(a(0), t.Args[0].W))
		case OIte:
			if a(0) != 0 {
				r = a(1)
			} else {
				r = a(2)
			}
		case OEq:
			r = b2u(a(0) == a(1))
		case OUlt:
			r = b2u(a(0) < a(1))
		case OUle:
			r = b2u(a(0) <= a(1))
		case OSlt:
			r = b2u(sext64(a(0), t.Args[0].W) < sext64(a(1), t.Args[0].W))
		case OSle:
			r = b2u(sext64(a(0), t.Args[0].W) <= sext64(a(1), t.Args[0].W))
		case OBNot:
			r = 1 - a(0)
		case OBAnd:
			r = a(0) & a(1)
		case OBOr:
			r = a(0) | a(1)
		default:
			fine = false
			return 0
		}
		if w > 0 {
			r &= mask(w)
		}
		memo[t.ID] = r
		return r
	}
	v = ev(t)
	return v, fine
}

// Vars returns the free variables of the given terms.
func Vars(ts ...*Term) []*Term {
	seen := map[int]bool{}
	var out []*Term
	var visit func(t *Term)
	visit = func(t *Term) {
		if seen[t.ID] {
			return
		}
		seen[t.ID] = true
		if t.Op == OVar {
			out = append(out, t)
		}
		for _, a := range t.Args {
			visit(a)
		}
	}
	for _, t := range ts {
		visit(t)
	}
	sort.Slice(out, func(i, j int) bool { return out[i].Name < out[j].Name })
	return out
}

// ---- incremental mode ------------------------------------------------------
//
// The path condition of the machine only grows along a path and consecutive
// queries share long prefixes, so the primary solver keeps an assertion stack
// (one push level per asserted term); a query pops to the longest common prefix,
// pushes the rest and checks.  Any irregularity (unknown, error line, I/O
// failure) makes the caller fall back to the one-shot portfolio.

type incLevel struct {
	term    *Term
	defined []int
	vars    []string
}

type incState struct {
	p       *proc
	levels  []incLevel
	named   map[int]string
	declared map[string]*Term
	ufs     map[string]bool
	varList []*Term
}

func (s *Solver) incReset() {
	if s.inc != nil && s.inc.p != nil {
		s.inc.p.stop()
	}
	s.inc = nil
}

func (s *Solver) checkInc(as []*Term, wantModel bool) (Result, *Model, bool) {
	if s.inc == nil {
		p := &proc{name: s.procs[0].name, argv: s.procs[0].argv}
		s.inc = &incState{p: p, named: map[int]string{}, declared: map[string]*Term{}, ufs: map[string]bool{}}
		if _, err := p.run(fmt.Sprintf("(set-option :produce-models true)\n(set-option :timeout %d)", s.TimeoutMs), 10*time.Second); err != nil {
			s.inc = nil
			return Unknown, nil, false
		}
	}
	st := s.inc
	// longest common prefix
	k := 0
	for k < len(st.levels) && k < len(as) && st.levels[k].term == as[k] {
		k++
	}
	var sb strings.Builder
	if n := len(st.levels) - k; n > 0 {
		fmt.Fprintf(&sb, "(pop %d)\n", n)
		for _, lv := range st.levels[k:] {
			for _, id := range lv.defined {
				delete(st.named, id)
			}
			for _, v := range lv.vars {
				delete(st.declared, v)
				delete(st.ufs, v)
			}
		}
		st.levels = st.levels[:k]
	}
	for _, a := range as[k:] {
		sb.WriteString("(push 1)\n")
		lv := incLevel{term: a}
		st.emit(&sb, a, &lv)
		sb.WriteString("(assert ")
		a.write(&sb, st.named, 0)
		sb.WriteString(")\n")
		st.levels = append(st.levels, lv)
	}
	sb.WriteString("(check-sat)\n")
	lines, err := st.p.run(sb.String(), time.Duration(s.TimeoutMs)*time.Millisecond+10*time.Second)
	if err != nil {
		s.incReset()
		return Unknown, nil, false
	}
	res := Unknown
	for _, l := range lines {
		switch {
		case l == "sat":
			res = Sat
		case l == "unsat":
			res = Unsat
		case strings.HasPrefix(l, "(error"):
			if os.Getenv("SYMX_DEBUG") != "" {
				fmt.Fprintf(os.Stderr, "inc solver: %s\n", l)
			}
			s.incReset()
			return Unknown, nil, false
		}
	}
	if res == Unknown {
		// leave the stack as is; the portfolio decides this query
		return Unknown, nil, false
	}
	if res == Unsat {
		return Unsat, nil, true
	}
	var m *Model
	if wantModel {
		var vs []string
		for n := range st.declared {
			if !st.ufs[n] {
				vs = append(vs, quoteSym(n))
			}
		}
		if len(vs) == 0 {
			return Sat, &Model{V: map[string]uint64{}, Raw: map[string]string{}}, true
		}
		sort.Strings(vs)
		lines, err := st.p.run("(get-value ("+strings.Join(vs, " ")+"))", 20*time.Second)
		if err != nil {
			s.incReset()
			return Unknown, nil, false
		}
		for _, l := range lines {
			if strings.HasPrefix(l, "(error") {
				s.incReset()
				return Unknown, nil, false
			}
		}
		m = parseModel(strings.Join(lines, " "))
	}
	return Sat, m, true
}

// emit declares/defines everything t needs that is not yet in scope.
func (st *incState) emit(sb *strings.Builder, t *Term, lv *incLevel) {
	if _, ok := st.named[t.ID]; ok {
		return
	}
	for _, a := range t.Args {
		st.emit(sb, a, lv)
	}
	switch {
	case t.Op == OVar:
		if _, ok := st.declared[t.Name]; !ok {
			fmt.Fprintf(sb, "(declare-fun %s () %s)\n", quoteSym(t.Name), sortOf(t))
			st.declared[t.Name] = t
			lv.vars = append(lv.vars, t.Name)
		}
		return
	case t.Op == OUF:
		if _, ok := st.declared[t.Name]; !ok {
			var as []string
			for _, a := range t.Args {
				as = append(as, sortOf(a))
			}
			fmt.Fprintf(sb, "(declare-fun %s (%s) %s)\n", quoteSym(t.Name), strings.Join(as, " "), sortOf(t))
			st.declared[t.Name] = t
			st.ufs[t.Name] = true
			lv.vars = append(lv.vars, t.Name)
		}
	}
	if len(t.Args) == 0 {
		return
	}
	name := fmt.Sprintf("t!%d", t.ID)
	fmt.Fprintf(sb, "(define-fun %s () %s ", name, sortOf(t))
	t.write(sb, st.named, 0)
	sb.WriteString(")\n")
	st.named[t.ID] = name
	lv.defined = append(lv.defined, t.ID)
}

// ---- division abstraction with refinement ---------------------------------------

func hasWideDiv(as []*Term) bool {
	seen := map[int]bool{}
	found := false
	var visit func(t *Term)
	visit = func(t *Term) {
		if found || seen[t.ID] {
			return
		}
		seen[t.ID] = true
		if t.W >= 16 && (t.Op == OUDiv || t.Op == OURem || t.Op == OSDiv || t.Op == OSRem) && !(t.Args[0].IsConst() && t.Args[1].IsConst()) {
			found = true
			return
		}
		for _, a := range t.Args {
			visit(a)
		}
	}
	for _, a := range as {
		visit(a)
	}
	return found
}

func divTerms(as []*Term) []*Term {
	seen := map[int]bool{}
	var out []*Term
	var visit func(t *Term)
	visit = func(t *Term) {
		if seen[t.ID] {
			return
		}
		seen[t.ID] = true
		for _, a := range t.Args {
			visit(a)
		}
		if t.W >= 16 && t.W <= 64 && (t.Op == OUDiv || t.Op == OURem || t.Op == OSDiv || t.Op == OSRem) && !(t.Args[0].IsConst() && t.Args[1].IsConst()) {
			out = append(out, t)
		}
	}
	for _, a := range as {
		visit(a)
	}
	return out
}

// checkAbsDiv decides the query with bvudiv/bvsdiv/bvurem/bvsrem (>= 32 bits)
// replaced by uninterpreted functions.  unsat is sound.  A model is evaluated
// concretely with real division: if it satisfies the original query it is a
// genuine model; otherwise the evaluated points are added as lemmas and the
// query is asked again (bounded rounds), then the caller falls back.
func (s *Solver) checkAbsDiv(as []*Term, wantModel bool) (Result, *Model, bool) {
	p := s.procs[0]
	var lemmas []string
	dts := divTerms(as)
	for round := 0; round < 8; round++ {
		s.AbsDivQueries++
		absDivPrint = true
		absDivUsed = map[string]int{}
		var body strings.Builder
		vars := WriteDefs(&body, as)
		absDivPrint = false
		var sb strings.Builder
		sb.WriteString("(reset)\n(set-option :produce-models true)\n")
		fmt.Fprintf(&sb, "(set-option :timeout %d)\n", s.TimeoutMs)
		for n, w := range absDivUsed {
			fmt.Fprintf(&sb, "(declare-fun %s ((_ BitVec %d) (_ BitVec %d)) (_ BitVec %d))\n", n, w, w, w)
		}
		sb.WriteString(body.String())
		for _, l := range lemmas {
			sb.WriteString(l)
		}
		sb.WriteString("(check-sat)\n")
		if len(vars) > 0 {
			sb.WriteString("(get-value (")
			for _, v := range vars {
				sb.WriteString(quoteSym(v.Name) + " ")
			}
			sb.WriteString("))\n")
		}
		s.LastQuery = sb.String()
		lines, err := p.run(sb.String(), time.Duration(s.TimeoutMs)*time.Millisecond+10*time.Second)
		if err != nil {
			return Unknown, nil, false
		}
		res := Unknown
		var rest []string
		for _, l := range lines {
			switch {
			case l == "sat":
				res = Sat
			case l == "unsat":
				res = Unsat
			case l == "unknown":
			case strings.HasPrefix(l, "(error"):
				if !(strings.Contains(l, "model is not available") || strings.Contains(l, "unless after a SAT")) {
					return Unknown, nil, false
				}
			default:
				rest = append(rest, l)
			}
		}
		if res == Unsat {
			return Unsat, nil, true
		}
		if res != Sat {
			return Unknown, nil, false
		}
		m := parseModel(strings.Join(rest, " "))
		genuine := true
		for _, a := range as {
			v, ok := Eval(a, m.V)
			if !ok {
				return Unknown, nil, false
			}
			if v != 1 {
				genuine = false
				break
			}
		}
		if genuine {
			return Sat, m, true
		}
		s.AbsDivRounds++
		for _, dt := range dts {
			a, ok1 := Eval(dt.Args[0], m.V)
			b, ok2 := Eval(dt.Args[1], m.V)
			if !ok1 || !ok2 {
				return Unknown, nil, false
			}
			r, _ := Eval(mk(dt.Op, dt.W, 0, 0, 0, "", "", Const(dt.W, a), Const(dt.W, b)), nil)
			lemmas = append(lemmas, fmt.Sprintf("(assert (= (%s %s %s) %s))\n", absDivName(dt), Const(dt.W, a), Const(dt.W, b), Const(dt.W, r)))
		}
	}
	return Unknown, nil, false
}
