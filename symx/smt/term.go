// Package smt is a small hash-consed term DAG with an eager simplifier and an
// SMT-LIB2 printer.  Bit-vector constants are limited to 64 bits (wider terms
// exist but are never constant folded).
package smt

import (
	"fmt"
	"strings"
)

type Op uint8

const (
	OConst Op = iota // BV constant
	OTrue
	OFalse
	OVar // BV or Bool variable
	ONot // bvnot
	OAnd
	OOr
	OXor
	ONeg
	OAdd
	OSub
	OMul
	OUDiv
	OURem
	OSDiv
	OSRem
	OShl
	OLShr
	OAShr
	OConcat
	OExtract // A=hi B=lo
	OZExt    // to width W
	OSExt
	OIte
	OEq
	OUlt
	OUle
	OSlt
	OSle
	OBNot
	OBAnd
	OBOr
	OUF  // uninterpreted function Name(args)
	ORaw // raw SMT-LIB application Name(args), sort given by W (0=Bool) or RawSort
)

var opNames = [...]string{"const", "true", "false", "var", "bvnot", "bvand", "bvor", "bvxor", "bvneg", "bvadd", "bvsub", "bvmul",
	"bvudiv", "bvurem", "bvsdiv", "bvsrem", "bvshl", "bvlshr", "bvashr", "concat", "extract", "zero_extend", "sign_extend",
	"ite", "=", "bvult", "bvule", "bvslt", "bvsle", "not", "and", "or", "uf", "raw"}

// Term is an immutable hash-consed node.  W==0 means Bool, otherwise a
// bit-vector of width W (RawSort non-empty overrides, e.g. "Float64").
type Term struct {
	ID      int
	Op      Op
	W       int
	Args    []*Term
	Val     uint64 // OConst
	A, B    int    // extract hi/lo
	Name    string // var / uf / raw
	RawSort string
}

type key struct {
	op      Op
	w       int
	val     uint64
	a, b    int
	name    string
	a0, a1  int
	a2      int
	rest    string
	rawsort string
}

var table = map[key]*Term{}
var nextID = 1

// NTerms reports how many distinct terms were built (for evidence).
func NTerms() int { return nextID - 1 }

func mk(op Op, w int, val uint64, a, b int, name, rawsort string, args ...*Term) *Term {
	k := key{op: op, w: w, val: val, a: a, b: b, name: name, rawsort: rawsort}
	if len(args) > 0 {
		k.a0 = args[0].ID
	}
	if len(args) > 1 {
		k.a1 = args[1].ID
	}
	if len(args) > 2 {
		k.a2 = args[2].ID
	}
	if len(args) > 3 {
		var sb strings.Builder
		for _, x := range args[3:] {
			fmt.Fprintf(&sb, "%d,", x.ID)
		}
		k.rest = sb.String()
	}
	if t, ok := table[k]; ok {
		return t
	}
	t := &Term{ID: nextID, Op: op, W: w, Args: args, Val: val, A: a, B: b, Name: name, RawSort: rawsort}
	nextID++
	table[k] = t
	return t
}

func mask(w int) uint64 {
	if w >= 64 {
		return ^uint64(0)
	}
	return (uint64(1) << uint(w)) - 1
}

func sext64(v uint64, w int) int64 {
	if w >= 64 {
		return int64(v)
	}
	s := uint(64 - w)
	return int64(v<<s) >> s
}

// ---- constructors -------------------------------------------------------

var True = mk(OTrue, 0, 0, 0, 0, "", "")
var False = mk(OFalse, 0, 0, 0, 0, "", "")

func Bool(b bool) *Term {
	if b {
		return True
	}
	return False
}

func Const(w int, v uint64) *Term {
	if w > 64 {
		// build as zero-extension of 64-bit constant
		return mk(OZExt, w, 0, 0, 0, "", "", Const(64, v))
	}
	if w <= 0 {
		panic("Const width")
	}
	return mk(OConst, w, v&mask(w), 0, 0, "", "")
}

func ConstI(w int, v int64) *Term { return Const(w, uint64(v)) }

func Var(name string, w int) *Term     { return mk(OVar, w, 0, 0, 0, name, "") }
func BoolVar(name string) *Term        { return mk(OVar, 0, 0, 0, 0, name, "") }
func RawVar(name, sort string) *Term   { return mk(OVar, -1, 0, 0, 0, name, sort) }
func (t *Term) IsConst() bool          { return t.Op == OConst }
func (t *Term) IsBoolConst() bool      { return t.Op == OTrue || t.Op == OFalse }
func (t *Term) IsTrue() bool           { return t.Op == OTrue }
func (t *Term) IsFalse() bool          { return t.Op == OFalse }
func (t *Term) IsBool() bool           { return t.W == 0 && t.RawSort == "" }
func (t *Term) Int() int64             { return sext64(t.Val, t.W) }
func (t *Term) Uint() uint64           { return t.Val }
func isC(t *Term) bool                 { return t.Op == OConst }
func bothC(a, b *Term) bool            { return a.Op == OConst && b.Op == OConst }
func isZero(t *Term) bool              { return t.Op == OConst && t.Val == 0 }
func isOnes(t *Term) bool              { return t.Op == OConst && t.Val == mask(t.W) }
func chk(a, b *Term, what string) {
	if a.W != b.W || a.W <= 0 {
		panic(fmt.Sprintf("smt.%s: width mismatch %d vs %d", what, a.W, b.W))
	}
}

func Not(a *Term) *Term {
	if isC(a) {
		return Const(a.W, ^a.Val)
	}
	if a.Op == ONot {
		return a.Args[0]
	}
	return mk(ONot, a.W, 0, 0, 0, "", "", a)
}

func And(a, b *Term) *Term {
	chk(a, b, "And")
	if bothC(a, b) {
		return Const(a.W, a.Val&b.Val)
	}
	if isC(a) {
		a, b = b, a
	}
	if isZero(b) {
		return b
	}
	if isOnes(b) || a == b {
		return a
	}
	// and(zext(x), mask) where mask covers x
	return mk(OAnd, a.W, 0, 0, 0, "", "", a, b)
}

func Or(a, b *Term) *Term {
	chk(a, b, "Or")
	if bothC(a, b) {
		return Const(a.W, a.Val|b.Val)
	}
	if isC(a) {
		a, b = b, a
	}
	if isZero(b) || a == b {
		return a
	}
	if isOnes(b) {
		return b
	}
	return mk(OOr, a.W, 0, 0, 0, "", "", a, b)
}

func Xor(a, b *Term) *Term {
	chk(a, b, "Xor")
	if bothC(a, b) {
		return Const(a.W, a.Val^b.Val)
	}
	if isC(a) {
		a, b = b, a
	}
	if isZero(b) {
		return a
	}
	if a == b {
		return Const(a.W, 0)
	}
	if isOnes(b) {
		return Not(a)
	}
	return mk(OXor, a.W, 0, 0, 0, "", "", a, b)
}

func Neg(a *Term) *Term {
	if isC(a) {
		return Const(a.W, -a.Val)
	}
	return mk(ONeg, a.W, 0, 0, 0, "", "", a)
}

func Add(a, b *Term) *Term {
	chk(a, b, "Add")
	if a.W > 64 {
		return mk(OAdd, a.W, 0, 0, 0, "", "", a, b)
	}
	if bothC(a, b) {
		return Const(a.W, a.Val+b.Val)
	}
	if isC(a) {
		a, b = b, a
	}
	if isZero(b) {
		return a
	}
	if isC(b) && a.Op == OAdd && isC(a.Args[1]) {
		return Add(a.Args[0], Const(a.W, a.Args[1].Val+b.Val))
	}
	// (x + c1) + y  ->  (x + y) + c1 keeps constants outermost
	if !isC(b) && a.Op == OAdd && isC(a.Args[1]) {
		return Add(Add(a.Args[0], b), a.Args[1])
	}
	if !isC(b) && b.Op == OAdd && isC(b.Args[1]) {
		return Add(Add(a, b.Args[0]), b.Args[1])
	}
	if !isC(b) && a.ID > b.ID {
		a, b = b, a
	}
	return mk(OAdd, a.W, 0, 0, 0, "", "", a, b)
}

func Sub(a, b *Term) *Term {
	chk(a, b, "Sub")
	if a.W > 64 {
		return mk(OSub, a.W, 0, 0, 0, "", "", a, b)
	}
	if bothC(a, b) {
		return Const(a.W, a.Val-b.Val)
	}
	if isC(b) {
		return Add(a, Const(a.W, -b.Val))
	}
	if a == b {
		return Const(a.W, 0)
	}
	// (x + c) - x = c ; (x+c1) - (x+c2)
	ab, ac := splitAdd(a)
	bb, bc := splitAdd(b)
	if ab == bb {
		return Const(a.W, ac-bc)
	}
	if ac != 0 || bc != 0 {
		return Add(mk(OSub, a.W, 0, 0, 0, "", "", ab, bb), Const(a.W, ac-bc))
	}
	return mk(OSub, a.W, 0, 0, 0, "", "", a, b)
}

// splitAdd returns (base, const) with t == base + const.
func splitAdd(t *Term) (*Term, uint64) {
	if t.Op == OAdd && isC(t.Args[1]) {
		return t.Args[0], t.Args[1].Val
	}
	return t, 0
}

// SplitAdd exposes splitAdd: t == base + c (c==0 and base==t when t is not a sum).
// A constant t yields (nil, value).
func SplitAdd(t *Term) (*Term, uint64) {
	if isC(t) {
		return nil, t.Val
	}
	return splitAdd(t)
}

func Mul(a, b *Term) *Term {
	chk(a, b, "Mul")
	if a.W > 64 {
		return mk(OMul, a.W, 0, 0, 0, "", "", a, b)
	}
	if bothC(a, b) {
		return Const(a.W, a.Val*b.Val)
	}
	if isC(a) {
		a, b = b, a
	}
	if isC(b) {
		if b.Val == 0 {
			return b
		}
		if b.Val == 1 {
			return a
		}
	} else if a.ID > b.ID {
		a, b = b, a
	}
	return mk(OMul, a.W, 0, 0, 0, "", "", a, b)
}

func UDiv(a, b *Term) *Term {
	chk(a, b, "UDiv")
	if bothC(a, b) && a.W <= 64 {
		if b.Val == 0 {
			return Const(a.W, mask(a.W))
		}
		return Const(a.W, a.Val/b.Val)
	}
	if isC(b) && b.Val == 1 {
		return a
	}
	return mk(OUDiv, a.W, 0, 0, 0, "", "", a, b)
}

func URem(a, b *Term) *Term {
	chk(a, b, "URem")
	if bothC(a, b) && a.W <= 64 {
		if b.Val == 0 {
			return a
		}
		return Const(a.W, a.Val%b.Val)
	}
	return mk(OURem, a.W, 0, 0, 0, "", "", a, b)
}

func SDiv(a, b *Term) *Term {
	chk(a, b, "SDiv")
	if bothC(a, b) && a.W <= 64 {
		x, y := a.Int(), b.Int()
		if y == 0 {
			if x >= 0 {
				return Const(a.W, mask(a.W))
			}
			return Const(a.W, 1)
		}
		if y == -1 {
			return Const(a.W, uint64(-x))
		}
		return Const(a.W, uint64(x/y))
	}
	if isC(b) && b.Val == 1 {
		return a
	}
	return mk(OSDiv, a.W, 0, 0, 0, "", "", a, b)
}

func SRem(a, b *Term) *Term {
	chk(a, b, "SRem")
	if bothC(a, b) && a.W <= 64 {
		x, y := a.Int(), b.Int()
		if y == 0 {
			return a
		}
		if y == -1 {
			return Const(a.W, 0)
		}
		return Const(a.W, uint64(x%y))
	}
	return mk(OSRem, a.W, 0, 0, 0, "", "", a, b)
}

func Shl(a, b *Term) *Term {
	chk(a, b, "Shl")
	if bothC(a, b) && a.W <= 64 {
		if b.Val >= uint64(a.W) {
			return Const(a.W, 0)
		}
		return Const(a.W, a.Val<<b.Val)
	}
	if isZero(b) {
		return a
	}
	return mk(OShl, a.W, 0, 0, 0, "", "", a, b)
}

func LShr(a, b *Term) *Term {
	chk(a, b, "LShr")
	if bothC(a, b) && a.W <= 64 {
		if b.Val >= uint64(a.W) {
			return Const(a.W, 0)
		}
		return Const(a.W, a.Val>>b.Val)
	}
	if isZero(b) {
		return a
	}
	return mk(OLShr, a.W, 0, 0, 0, "", "", a, b)
}

func AShr(a, b *Term) *Term {
	chk(a, b, "AShr")
	if bothC(a, b) && a.W <= 64 {
		s := b.Val
		if s >= uint64(a.W) {
			s = uint64(a.W - 1)
		}
		return Const(a.W, uint64(a.Int()>>s))
	}
	if isZero(b) {
		return a
	}
	return mk(OAShr, a.W, 0, 0, 0, "", "", a, b)
}

func Concat(hi, lo *Term) *Term {
	w := hi.W + lo.W
	if bothC(hi, lo) && w <= 64 {
		return Const(w, hi.Val<<uint(lo.W)|lo.Val)
	}
	// fuse adjacent extracts of the same term
	if hi.Op == OExtract && lo.Op == OExtract && hi.Args[0] == lo.Args[0] && hi.B == lo.A+1 {
		return Extract(hi.Args[0], hi.A, lo.B)
	}
	// concat(extract(x,hi..k), concat(extract(x,k-1..j), rest))
	if hi.Op == OExtract && lo.Op == OConcat && lo.Args[0].Op == OExtract && lo.Args[0].Args[0] == hi.Args[0] && hi.B == lo.Args[0].A+1 {
		return Concat(Extract(hi.Args[0], hi.A, lo.Args[0].B), lo.Args[1])
	}
	if isZero(hi) {
		return ZExt(lo, w)
	}
	return mk(OConcat, w, 0, 0, 0, "", "", hi, lo)
}

// ExtractByte is Extract without the arithmetic push-down rules, used when a
// value is split into memory bytes so that loading it back re-fuses to the
// original term.
func ExtractByte(a *Term, hi, lo int) *Term {
	noPush = true
	defer func() { noPush = false }()
	return Extract(a, hi, lo)
}

var noPush bool

func Extract(a *Term, hi, lo int) *Term {
	if hi < lo || lo < 0 || hi >= a.W {
		panic(fmt.Sprintf("smt.Extract(%d,%d) of width %d", hi, lo, a.W))
	}
	w := hi - lo + 1
	if w == a.W {
		return a
	}
	if isC(a) {
		return Const(w, a.Val>>uint(lo))
	}
	switch a.Op {
	case OExtract:
		return Extract(a.Args[0], hi+a.B, lo+a.B)
	case OConcat:
		l := a.Args[1]
		if hi < l.W {
			return Extract(l, hi, lo)
		}
		if lo >= l.W {
			return Extract(a.Args[0], hi-l.W, lo-l.W)
		}
		return Concat(Extract(a.Args[0], hi-l.W, 0), Extract(l, l.W-1, lo))
	case OZExt:
		x := a.Args[0]
		if hi < x.W {
			return Extract(x, hi, lo)
		}
		if lo >= x.W {
			return Const(w, 0)
		}
		return ZExt(Extract(x, x.W-1, lo), w)
	case OSExt:
		x := a.Args[0]
		if hi < x.W {
			return Extract(x, hi, lo)
		}
		if lo < x.W {
			return SExt(Extract(x, x.W-1, lo), w)
		}
	case OIte:
		if isC(a.Args[1]) && isC(a.Args[2]) {
			return Ite(a.Args[0], Extract(a.Args[1], hi, lo), Extract(a.Args[2], hi, lo))
		}
	case OAnd, OOr, OXor:
		if isC(a.Args[1]) && !noPush {
			x, y := Extract(a.Args[0], hi, lo), Extract(a.Args[1], hi, lo)
			switch a.Op {
			case OAnd:
				return And(x, y)
			case OOr:
				return Or(x, y)
			}
			return Xor(x, y)
		}
	case OAdd, OSub, OMul, ONot, ONeg:
		// low bits of modular arithmetic depend only on low bits
		if lo == 0 && a.W <= 64 && !noPush {
			switch a.Op {
			case OAdd:
				return Add(Extract(a.Args[0], hi, 0), Extract(a.Args[1], hi, 0))
			case OSub:
				return Sub(Extract(a.Args[0], hi, 0), Extract(a.Args[1], hi, 0))
			case OMul:
				return Mul(Extract(a.Args[0], hi, 0), Extract(a.Args[1], hi, 0))
			case ONot:
				return Not(Extract(a.Args[0], hi, 0))
			case ONeg:
				return Neg(Extract(a.Args[0], hi, 0))
			}
		}
	}
	return mk(OExtract, w, 0, hi, lo, "", "", a)
}

func ZExt(a *Term, w int) *Term {
	if w == a.W {
		return a
	}
	if w < a.W {
		panic("smt.ZExt narrower")
	}
	if isC(a) && w <= 64 {
		return Const(w, a.Val)
	}
	if a.Op == OZExt {
		return ZExt(a.Args[0], w)
	}
	return mk(OZExt, w, 0, 0, 0, "", "", a)
}

func SExt(a *Term, w int) *Term {
	if w == a.W {
		return a
	}
	if w < a.W {
		panic("smt.SExt narrower")
	}
	if isC(a) && w <= 64 {
		return Const(w, uint64(a.Int()))
	}
	if a.Op == OSExt {
		return SExt(a.Args[0], w)
	}
	if a.Op == OZExt {
		return ZExt(a.Args[0], w)
	}
	return mk(OSExt, w, 0, 0, 0, "", "", a)
}

// Resize truncates or extends (signed or unsigned) to width w.
func Resize(a *Term, w int, signed bool) *Term {
	if w < a.W {
		return Extract(a, w-1, 0)
	}
	if signed {
		return SExt(a, w)
	}
	return ZExt(a, w)
}

func Ite(c, a, b *Term) *Term {
	if !c.IsBool() {
		panic("smt.Ite: cond not bool")
	}
	if a.W != b.W || a.RawSort != b.RawSort {
		panic(fmt.Sprintf("smt.Ite: arm widths %d vs %d", a.W, b.W))
	}
	if c.IsTrue() {
		return a
	}
	if c.IsFalse() {
		return b
	}
	if a == b {
		return a
	}
	if a.IsBool() {
		if a.IsTrue() && b.IsFalse() {
			return c
		}
		if a.IsFalse() && b.IsTrue() {
			return BNot(c)
		}
		if a.IsTrue() {
			return BOr(c, b)
		}
		if a.IsFalse() {
			return BAnd(BNot(c), b)
		}
		if b.IsTrue() {
			return BOr(BNot(c), a)
		}
		if b.IsFalse() {
			return BAnd(c, a)
		}
	}
	if c.Op == OBNot {
		return Ite(c.Args[0], b, a)
	}
	// ite(c, x, ite(c, y, z)) = ite(c, x, z)
	if b.Op == OIte && b.Args[0] == c {
		return Ite(c, a, b.Args[2])
	}
	if a.Op == OIte && a.Args[0] == c {
		return Ite(c, a.Args[1], b)
	}
	return mk(OIte, a.W, 0, 0, 0, "", a.RawSort, c, a, b)
}

func Eq(a, b *Term) *Term {
	if a.W != b.W {
		panic(fmt.Sprintf("smt.Eq: widths %d vs %d", a.W, b.W))
	}
	if a == b {
		return True
	}
	if a.IsBool() {
		if a.IsBoolConst() {
			a, b = b, a
		}
		if b.IsTrue() {
			return a
		}
		if b.IsFalse() {
			return BNot(a)
		}
		if a.ID > b.ID {
			a, b = b, a
		}
		return mk(OEq, 0, 0, 0, 0, "", "", a, b)
	}
	if bothC(a, b) {
		return Bool(a.Val == b.Val)
	}
	if isC(a) {
		a, b = b, a
	}
	if isC(b) && a.W <= 64 {
		switch a.Op {
		case OIte:
			// eq(ite(c,k1,k2),k) with constant arms
			if isC(a.Args[1]) || isC(a.Args[2]) {
				return Ite(a.Args[0], Eq(a.Args[1], b), Eq(a.Args[2], b))
			}
		case OAdd:
			if isC(a.Args[1]) {
				return Eq(a.Args[0], Const(a.W, b.Val-a.Args[1].Val))
			}
		case OZExt:
			x := a.Args[0]
			if x.W <= 64 {
				if b.Val > mask(x.W) {
					return False
				}
				return Eq(x, Const(x.W, b.Val))
			}
		case OSExt:
			x := a.Args[0]
			if uint64(sext64(b.Val&mask(x.W), x.W))&mask(a.W) != b.Val {
				return False
			}
			return Eq(x, Const(x.W, b.Val))
		case OConcat:
			hi, lo := a.Args[0], a.Args[1]
			if hi.W <= 64 && lo.W <= 64 {
				return BAnd(Eq(hi, Const(hi.W, b.Val>>uint(lo.W))), Eq(lo, Const(lo.W, b.Val)))
			}
		}
	}
	if !isC(b) && a.ID > b.ID {
		a, b = b, a
	}
	return mk(OEq, 0, 0, 0, 0, "", "", a, b)
}

func Ne(a, b *Term) *Term { return BNot(Eq(a, b)) }

func Ult(a, b *Term) *Term {
	chk(a, b, "Ult")
	if bothC(a, b) {
		return Bool(a.Val < b.Val)
	}
	if a == b || isZero(b) {
		return False
	}
	if isC(b) && a.Op == OZExt && a.Args[0].W < 64 && b.Val > mask(a.Args[0].W) {
		return True
	}
	if isC(b) && a.Op == OZExt && a.Args[0].W <= 64 {
		return Ult(a.Args[0], Const(a.Args[0].W, b.Val))
	}
	return mk(OUlt, 0, 0, 0, 0, "", "", a, b)
}

func Ule(a, b *Term) *Term {
	chk(a, b, "Ule")
	if bothC(a, b) {
		return Bool(a.Val <= b.Val)
	}
	if a == b || isZero(a) {
		return True
	}
	return mk(OUle, 0, 0, 0, 0, "", "", a, b)
}

func Slt(a, b *Term) *Term {
	chk(a, b, "Slt")
	if bothC(a, b) {
		return Bool(a.Int() < b.Int())
	}
	if a == b {
		return False
	}
	// zext values are non-negative
	if a.Op == OZExt && a.Args[0].W < a.W && isC(b) && b.Int() <= 0 {
		return False
	}
	if a.Op == OZExt && a.Args[0].W < a.W && isC(b) && b.Int() > 0 {
		return Ult(a, b)
	}
	return mk(OSlt, 0, 0, 0, 0, "", "", a, b)
}

func Sle(a, b *Term) *Term {
	chk(a, b, "Sle")
	if bothC(a, b) {
		return Bool(a.Int() <= b.Int())
	}
	if a == b {
		return True
	}
	return mk(OSle, 0, 0, 0, 0, "", "", a, b)
}

func Ugt(a, b *Term) *Term { return Ult(b, a) }
func Uge(a, b *Term) *Term { return Ule(b, a) }
func Sgt(a, b *Term) *Term { return Slt(b, a) }
func Sge(a, b *Term) *Term { return Sle(b, a) }

func BNot(a *Term) *Term {
	if !a.IsBool() {
		panic("smt.BNot: not bool")
	}
	switch a.Op {
	case OTrue:
		return False
	case OFalse:
		return True
	case OBNot:
		return a.Args[0]
	}
	return mk(OBNot, 0, 0, 0, 0, "", "", a)
}

func BAnd(a, b *Term) *Term {
	if !a.IsBool() || !b.IsBool() {
		panic("smt.BAnd: not bool")
	}
	if a.IsFalse() || b.IsFalse() {
		return False
	}
	if a.IsTrue() {
		return b
	}
	if b.IsTrue() || a == b {
		return a
	}
	if (a.Op == OBNot && a.Args[0] == b) || (b.Op == OBNot && b.Args[0] == a) {
		return False
	}
	if a.ID > b.ID {
		a, b = b, a
	}
	return mk(OBAnd, 0, 0, 0, 0, "", "", a, b)
}

func BOr(a, b *Term) *Term {
	if !a.IsBool() || !b.IsBool() {
		panic("smt.BOr: not bool")
	}
	if a.IsTrue() || b.IsTrue() {
		return True
	}
	if a.IsFalse() {
		return b
	}
	if b.IsFalse() || a == b {
		return a
	}
	if (a.Op == OBNot && a.Args[0] == b) || (b.Op == OBNot && b.Args[0] == a) {
		return True
	}
	if a.ID > b.ID {
		a, b = b, a
	}
	return mk(OBOr, 0, 0, 0, 0, "", "", a, b)
}

func Implies(a, b *Term) *Term { return BOr(BNot(a), b) }

func AndAll(ts ...*Term) *Term {
	r := True
	for _, t := range ts {
		r = BAnd(r, t)
	}
	return r
}

func OrAll(ts ...*Term) *Term {
	r := False
	for _, t := range ts {
		r = BOr(r, t)
	}
	return r
}

// UF applies an uninterpreted function; w is the result width (0 = Bool).
func UF(name string, w int, args ...*Term) *Term {
	return mk(OUF, w, 0, 0, 0, name, "", args...)
}

// Raw builds a raw SMT-LIB application (head may contain spaces, e.g.
// "fp.add RNE"); w>0 BV result, w==0 Bool, or sort string for w<0.
func Raw(head string, w int, sort string, args ...*Term) *Term {
	return mk(ORaw, w, 0, 0, 0, head, sort, args...)
}

// BoolToBV gives a 1-bit or w-bit 0/1 vector for a boolean.
func BoolToBV(b *Term, w int) *Term { return Ite(b, Const(w, 1), Const(w, 0)) }

func (t *Term) String() string {
	var sb strings.Builder
	t.write(&sb, nil, 0)
	return sb.String()
}

func sortOf(t *Term) string {
	if t.RawSort != "" {
		return t.RawSort
	}
	if t.W == 0 {
		return "Bool"
	}
	return fmt.Sprintf("(_ BitVec %d)", t.W)
}

// write prints the term; named maps term IDs to names already bound.
// AbsDivPrint makes wide division/remainder print as uninterpreted functions
// (sound abstraction: equal operands give equal results); see Solver.AbsDiv.
var absDivPrint bool
var absDivUsed map[string]int

func isAbsDiv(t *Term) bool {
	return absDivPrint && t.W >= 16 && (t.Op == OUDiv || t.Op == OURem || t.Op == OSDiv || t.Op == OSRem) && !(t.Args[0].IsConst() && t.Args[1].IsConst())
}

func absDivName(t *Term) string { return fmt.Sprintf("absdiv_%s_%d", opNames[t.Op], t.W) }

func (t *Term) write(sb *strings.Builder, named map[int]string, depth int) {
	if named != nil {
		if n, ok := named[t.ID]; ok {
			sb.WriteString(n)
			return
		}
	}
	if depth > 200 {
		sb.WriteString("<deep>")
		return
	}
	switch t.Op {
	case OConst:
		if t.W%4 == 0 {
			fmt.Fprintf(sb, "#x%0*x", t.W/4, t.Val)
		} else {
			fmt.Fprintf(sb, "#b%0*b", t.W, t.Val)
		}
	case OTrue:
		sb.WriteString("true")
	case OFalse:
		sb.WriteString("false")
	case OVar:
		sb.WriteString(quoteSym(t.Name))
	case OExtract:
		fmt.Fprintf(sb, "((_ extract %d %d) ", t.A, t.B)
		t.Args[0].write(sb, named, depth+1)
		sb.WriteString(")")
	case OZExt, OSExt:
		fmt.Fprintf(sb, "((_ %s %d) ", opNames[t.Op], t.W-t.Args[0].W)
		t.Args[0].write(sb, named, depth+1)
		sb.WriteString(")")
	case OUF, ORaw:
		if len(t.Args) == 0 {
			sb.WriteString(t.Name)
			return
		}
		sb.WriteString("(")
		if t.Op == OUF {
			sb.WriteString(quoteSym(t.Name))
		} else {
			sb.WriteString(t.Name)
		}
		for _, a := range t.Args {
			sb.WriteString(" ")
			a.write(sb, named, depth+1)
		}
		sb.WriteString(")")
	default:
		sb.WriteString("(")
		if isAbsDiv(t) {
			n := absDivName(t)
			absDivUsed[n] = t.W
			sb.WriteString(n)
		} else {
			sb.WriteString(opNames[t.Op])
		}
		for _, a := range t.Args {
			sb.WriteString(" ")
			a.write(sb, named, depth+1)
		}
		sb.WriteString(")")
	}
}

func quoteSym(s string) string {
	for _, c := range s {
		if !(c >= 'a' && c <= 'z' || c >= 'A' && c <= 'Z' || c >= '0' && c <= '9' || c == '_' || c == '.' || c == '$' || c == '!') {
			return "|" + strings.ReplaceAll(s, "|", "!") + "|"
		}
	}
	return s
}
