package tv

import (
	"fmt"
	"sort"
	"strings"

	"github.com/goplus/llgo/zz_verif_symx/core"
	"github.com/goplus/llgo/zz_verif_symx/llfe"
	"github.com/goplus/llgo/zz_verif_symx/smt"
)

// MergeCheck: every symbol that several modules define as a mergeable
// (linkonce / weak) definition must be equivalent in all of them, so that the
// linker's choice cannot change behaviour.  Function bodies are compared by the
// solver on arbitrary arguments, constant data structurally.

type MergeResult struct {
	Symbol  string
	Kind    string // "func" / "global"
	Modules []string
}

func canonValue(v *llfe.IRValue, depth int) string {
	if v == nil {
		return "nil"
	}
	if depth > 40 {
		return "..."
	}
	switch v.Kind {
	case llfe.VConstInt:
		return fmt.Sprintf("i%d:%d", v.Ty.Bits, v.Int)
	case llfe.VConstFP:
		return fmt.Sprintf("f:%v", v.FP)
	case llfe.VNull:
		return "null"
	case llfe.VZero:
		return "zero:" + v.Ty.String()
	case llfe.VUndef:
		return "undef"
	case llfe.VGlobal:
		if strings.HasPrefix(v.Name, "$anon.") {
			return "@anon"
		}
		return "@" + v.Name
	case llfe.VFunc:
		return "@fn:" + v.Name
	case llfe.VConstAgg:
		var ps []string
		for _, e := range v.Elems {
			ps = append(ps, canonValue(e, depth+1))
		}
		return "{" + strings.Join(ps, ",") + "}"
	case llfe.VConstExpr:
		var ps []string
		for _, o := range v.Ins.Ops {
			ps = append(ps, canonValue(o, depth+1))
		}
		return v.Ins.Op + "(" + strings.Join(ps, ",") + ")"
	}
	return fmt.Sprintf("kind%d", v.Kind)
}

// anonContent resolves private constants (string data) referenced by a value so
// that two modules' differently numbered @0/@1 compare by content.
func canonGlobal(m *llfe.Module, g *llfe.Global) string {
	var sb strings.Builder
	sb.WriteString(g.Ty.String() + "=")
	var rec func(v *llfe.IRValue, d int)
	rec = func(v *llfe.IRValue, d int) {
		if v == nil || d > 40 {
			return
		}
		if v.Kind == llfe.VGlobal && strings.HasPrefix(v.Name, "$anon.") {
			if ag := m.Globals[v.Name]; ag != nil && ag.Init != nil {
				sb.WriteString("@anon<" + canonValue(ag.Init, 0) + ">")
				return
			}
		}
		switch v.Kind {
		case llfe.VConstAgg:
			sb.WriteString("{")
			for _, e := range v.Elems {
				rec(e, d+1)
				sb.WriteString(",")
			}
			sb.WriteString("}")
		case llfe.VConstExpr:
			sb.WriteString(v.Ins.Op + "(")
			for _, o := range v.Ins.Ops {
				rec(o, d+1)
				sb.WriteString(",")
			}
			sb.WriteString(")")
		default:
			sb.WriteString(canonValue(v, d))
		}
	}
	rec(g.Init, 0)
	return sb.String()
}

// canonFunc renders a function body with instruction results numbered by
// position and private constants replaced by their contents, so that two
// emissions of the same body compare equal as strings.
func canonFunc(m *llfe.Module, f *llfe.Func) string {
	num := map[*llfe.Instr]int{}
	k := 0
	for _, b := range f.Blocks {
		for _, in := range b.Instrs {
			num[in] = k
			k++
		}
	}
	bnum := map[string]int{}
	for i, b := range f.Blocks {
		bnum[b.Name] = i
	}
	var sb strings.Builder
	var val func(v *llfe.IRValue, d int)
	val = func(v *llfe.IRValue, d int) {
		if v == nil || d > 40 {
			sb.WriteString("nil")
			return
		}
		switch v.Kind {
		case llfe.VInstr:
			fmt.Fprintf(&sb, "%%%d", num[v.Ins])
		case llfe.VArg:
			fmt.Fprintf(&sb, "arg%d", v.Idx)
		case llfe.VBlock:
			fmt.Fprintf(&sb, "bb%d", bnum[v.Name])
		case llfe.VGlobal:
			if strings.HasPrefix(v.Name, "$anon.") {
				if ag := m.Globals[v.Name]; ag != nil {
					sb.WriteString("@anon<" + canonGlobal(m, ag) + ">")
					return
				}
			}
			sb.WriteString("@" + v.Name)
		case llfe.VConstAgg:
			sb.WriteString("{")
			for _, e := range v.Elems {
				val(e, d+1)
				sb.WriteString(",")
			}
			sb.WriteString("}")
		case llfe.VConstExpr:
			sb.WriteString(v.Ins.Op + ":" + v.Ins.Ty.String() + "(")
			if v.Ins.SrcTy != nil {
				sb.WriteString(v.Ins.SrcTy.String() + ";")
			}
			for _, o := range v.Ins.Ops {
				val(o, d+1)
				sb.WriteString(",")
			}
			sb.WriteString(")")
		default:
			sb.WriteString(canonValue(v, d))
		}
	}
	sb.WriteString(f.Ty.String() + "\n")
	for i, b := range f.Blocks {
		fmt.Fprintf(&sb, "bb%d:\n", i)
		for _, in := range b.Instrs {
			fmt.Fprintf(&sb, " %%%d=%s %s %s", num[in], in.Op, in.Ty, in.Pred)
			if in.SrcTy != nil {
				sb.WriteString(" src=" + in.SrcTy.String())
			}
			if in.FnTy != nil {
				sb.WriteString(" fn=" + in.FnTy.String())
			}
			fmt.Fprintf(&sb, " %v %v%v%v%v %s %s [", in.Indices, in.NSW, in.NUW, in.Exact, in.InBounds, in.Atomic, in.RMWOp)
			for _, bn := range in.Blocks {
				fmt.Fprintf(&sb, "bb%d,", bnum[bn])
			}
			sb.WriteString("] ")
			for _, o := range in.Ops {
				val(o, 0)
				sb.WriteString(" ")
			}
			sb.WriteString("\n")
		}
	}
	return sb.String()
}

func mergeable(l string) bool {
	return strings.HasPrefix(l, "linkonce") || strings.HasPrefix(l, "weak") || l == "common"
}

// RunMerge checks all multiply-defined symbols of mods.  Function comparisons run
// under m (solver); returns the list of symbols compared.
func RunMerge(m *core.Machine, mods []*llfe.Module, d *Driver, prefix string) []MergeResult {
	var out []MergeResult
	// ---- globals
	gdefs := map[string][]*llfe.Module{}
	for _, md := range mods {
		for n, g := range md.Globals {
			if !g.IsDecl && !strings.HasPrefix(n, "$anon.") {
				gdefs[n] = append(gdefs[n], md)
			}
		}
	}
	var gnames []string
	for n, ms := range gdefs {
		if len(ms) > 1 {
			gnames = append(gnames, n)
		}
	}
	sort.Strings(gnames)
	for _, n := range gnames {
		ms := gdefs[n]
		res := MergeResult{Symbol: n, Kind: "global"}
		ref := canonGlobal(ms[0], ms[0].Globals[n])
		same := true
		badLink := ""
		for _, md := range ms {
			res.Modules = append(res.Modules, md.Name)
			g := md.Globals[n]
			if !mergeable(g.Linkage) {
				badLink = fmt.Sprintf("global @%s is defined in several modules but is not mergeable (%s in %s)", n, g.Linkage, md.Name)
			}
			if canonGlobal(md, g) != ref {
				same = false
			}
		}
		m.Explore(func() {
			if badLink != "" {
				m.Assert(smt.False, prefix+"merge.linkage."+n, badLink, "assert")
			}
			m.Assert(smt.Bool(same), prefix+"merge.global."+n, fmt.Sprintf("mergeable global @%s has different definitions in %v", n, res.Modules), "assert")
			m.Reach(prefix + "merge.global")
		})
		out = append(out, res)
	}
	// ---- functions
	fdefs := map[string][]*llfe.Module{}
	for _, md := range mods {
		for n, f := range md.Funcs {
			if !f.IsDecl {
				fdefs[n] = append(fdefs[n], md)
			}
		}
	}
	var fnames []string
	for n, ms := range fdefs {
		if len(ms) > 1 {
			fnames = append(fnames, n)
		}
	}
	sort.Strings(fnames)
	for _, n := range fnames {
		ms := fdefs[n]
		res := MergeResult{Symbol: n, Kind: "func"}
		for _, md := range ms {
			res.Modules = append(res.Modules, md.Name)
			if l := md.Funcs[n].Linkage; !mergeable(l) {
				msg := fmt.Sprintf("function @%s is defined in several modules but is not mergeable (%s in %s)", n, l, md.Name)
				m.Explore(func() { m.Assert(smt.False, prefix+"merge.linkage."+n, msg, "assert") })
			}
		}
		out = append(out, res)
		// compare module i against module 0 on arbitrary arguments
		for i := 1; i < len(ms); i++ {
			a, b := ms[0], ms[i]
			id := prefix + "merge.func." + n
			if canonFunc(a, a.Funcs[n]) == canonFunc(b, b.Funcs[n]) {
				// the two emissions are the same code: nothing for the solver to decide
				m.Explore(func() {
					m.Assert(smt.True, id, "", "assert")
					m.Reach(id)
				})
				continue
			}
			m.Explore(func() {
				fa := a.Funcs[n]
				if len(fa.Params) != len(b.Funcs[n].Params) {
					m.Assert(smt.False, id, "different parameter lists", "assert")
					return
				}
				var args []Value
				okArgs := true
				for k, p := range fa.Params {
					v := symArg(m, p.Ty, fmt.Sprintf("a%d", k))
					if v == nil {
						okArgs = false
					}
					args = append(args, v)
				}
				if !okArgs {
					m.Inconclusive(id, "parameter type not supported by the merge check")
					return
				}
				run := func(first *llfe.Module) (res Value, pan string, tr []llfe.Event) {
					order := []*llfe.Module{first}
					for _, md := range mods {
						if md != first {
							order = append(order, md)
						}
					}
					x := llfe.NewExec(m, order)
					x.Cfg.CheckCallABI = true
					d.UseL(x)
					d.ResetPath()
					func() {
						defer func() {
							if r := recover(); r != nil {
								if gp, ok := r.(*llfe.GoPanic); ok {
									pan = "panic:" + gp.Class
									return
								}
								panic(r)
							}
						}()
						res = x.CallFunc(n, args)
					}()
					return res, pan, x.Trace
				}
				snap := m.Mem.Snapshot()
				ra, pa, ta := run(a)
				m.Mem.Restore(snap, nil)
				rb, pb, tb := run(b)
				eq := smt.Bool(pa == pb && len(ta) == len(tb))
				if pa == pb && len(ta) == len(tb) {
					for k := range ta {
						if ta[k].Name != tb[k].Name || len(ta[k].Args) != len(tb[k].Args) {
							eq = smt.False
							break
						}
						for j := range ta[k].Args {
							eq = smt.BAnd(eq, eqVal(ta[k].Args[j], tb[k].Args[j]))
						}
					}
					if ra != nil && rb != nil {
						eq = smt.BAnd(eq, eqVal(ra, rb))
					}
				}
				m.Assert(eq, id, fmt.Sprintf("mergeable function @%s behaves differently in %s and %s", n, a.Name, b.Name), "assert")
				m.Reach(id)
			})
		}
	}
	return out
}

func symArg(m *core.Machine, t *llfe.Type, name string) Value {
	switch t.Kind {
	case llfe.TInt:
		if t.Bits == 1 {
			return m.Fresh(name, 0)
		}
		return m.Fresh(name, t.Bits)
	case llfe.TFloat:
		return m.Fresh(name, t.Bits)
	case llfe.TPtr:
		return m.Mem.AllocSym(64, name).Ptr()
	case llfe.TStruct:
		a := make(Agg, len(t.Elems))
		for i, e := range t.Elems {
			a[i] = symArg(m, e, fmt.Sprintf("%s.%d", name, i))
			if a[i] == nil {
				return nil
			}
		}
		return a
	case llfe.TArray:
		a := make(Agg, t.N)
		for i := range a {
			a[i] = symArg(m, t.Elems[0], fmt.Sprintf("%s[%d]", name, i))
			if a[i] == nil {
				return nil
			}
		}
		return a
	}
	return nil
}
