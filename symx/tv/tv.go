// Package tv is the translation-validation driver: the same Go function is
// executed by front end G under Go-specification semantics (the oracle, on its
// own unmodified go/ssa build) and by front end L on the IR llgo produced for
// it; the solver proves results, panic status and external-call traces equal
// for every input, and that no LLVM UB / poison reaches an observable.
package tv

import (
	"fmt"
	"go/types"
	"strings"

	"github.com/goplus/llgo/zz_verif_symx/core"
	"github.com/goplus/llgo/zz_verif_symx/gofe"
	"github.com/goplus/llgo/zz_verif_symx/llfe"
	"github.com/goplus/llgo/zz_verif_symx/smt"
	"golang.org/x/tools/go/ssa"
)

type Value = core.Value
type Agg = core.Agg

type Outcome struct {
	Res   Value
	Panic string // "" none, else class
	PVal  Value
	Trace []llfe.Event
}

type Driver struct {
	M    *core.Machine
	G    *gofe.Exec // harness program, Go semantics
	RT   *gofe.Exec // llgo runtime sources (bridge target)
	L    *llfe.Exec
	Prog *gofe.Program
	RTP  *gofe.Program
	gTrace []llfe.Event
	SliceN int // backing store bound (elements) for slice/string parameters
	PkgPath string
	Prefix  string // obligation id prefix
	AssumeFPRange bool
	pending       string // class of the panic most recently raised
	extCount      map[string]int
	InitFirst     bool // run the package initialiser on both sides before the function
}

const rtPath = "github.com/goplus/llgo/runtime/internal/runtime"

func New(m *core.Machine, prog, rtp *gofe.Program, mods []*llfe.Module, pkgPath string) *Driver {
	d := &Driver{M: m, Prog: prog, RTP: rtp, SliceN: 3, PkgPath: pkgPath}
	d.G = gofe.NewExec(prog, m)
	d.G.Extern = func(x *gofe.Exec, name string, fn *ssa.Function, args []Value) (Value, bool) {
		d.gTrace = append(d.gTrace, llfe.Event{Name: fn.Name(), Args: args})
		res := fn.Signature.Results()
		if res.Len() == 0 {
			return nil, true
		}
		// the k-th call of an external function yields the same symbol on both sides
		k := d.extCount["g:"+fn.Name()]
		d.extCount["g:"+fn.Name()] = k + 1
		return extSym(x.LayoutOf(res.At(0).Type()), fmt.Sprintf("ext.%s@%d", fn.Name(), k)), true
	}
	if rtp != nil {
		d.RT = gofe.NewExec(rtp, m)
		// the runtime calls back into compiled code through function pointers
		// stored in type descriptors (equal, hash) and closures
		d.RT.Foreign = func(fp uint64, ctx *smt.Term, args []Value) (Value, bool) {
			name, ok := d.L.FuncNameAt(fp)
			if !ok {
				return nil, false
			}
			if !d.L.Defined(name) {
				if strings.HasPrefix(name, rtPath+".") {
					if f := d.RTP.Main.Func(name[len(rtPath)+1:]); f != nil {
						if len(f.Params) == len(args)+1 {
							// closure over a runtime function: the context is its first parameter
							args = append([]Value{ctx}, args...)
						}
						r, pan := d.RT.CallGo(f, args)
						if pan != nil {
							d.raise(pan.Class, pan.Val, name+": "+pan.Msg)
						}
						return r, true
					}
				}
				return nil, false
			}
			return d.L.CallFunc(name, append([]Value{ctx}, args...)), true
		}
	}
	d.UseL(llfe.NewExec(m, mods))
	return d
}

// UseL installs the IR executor (the merge check swaps module orders).
func (d *Driver) UseL(x *llfe.Exec) {
	d.L = x
	x.Bridge = d
	x.ExternValue = func(name string, t *llfe.Type) Value {
		k := d.extCount["l:"+name]
		d.extCount["l:"+name] = k + 1
		return extSym(llfe.CoreType(t), fmt.Sprintf("ext.%s@%d", name, k))
	}
}

// ResetPath prepares all executors for a fresh path.
func (d *Driver) ResetPath() {
	d.G.StartShared()
	if d.RT != nil {
		d.RT.StartShared()
	}
	d.L.ResetPath()
	d.gTrace = nil
	d.extCount = map[string]int{}
}

var rtClass = map[string]string{
	"AssertDivideByZero": "divide", "AssertIndexRange": "bounds", "AssertNegativeShift": "shift", "NewSlice3": "bounds", "StringSlice": "bounds",
	"MakeSlice": "bounds", "PanicSliceConvert": "bounds", "AssertNilDeref": "nilptr", "Panic": "",
	"MapAssign": "nilmap", "ChanSend": "chan", "ChanTrySend": "chan", "ChanClose": "chan", "Select": "chan", "TrySelect": "chan",
}

// Call implements llfe.Bridge: runtime entry points run on front end G.
func (d *Driver) Call(x *llfe.Exec, name string, fn *llfe.Func, args []Value, retTy *llfe.Type) (Value, bool) {
	if !strings.HasPrefix(name, rtPath+".") || d.RT == nil {
		return nil, false
	}
	short := name[len(rtPath)+1:]
	f := d.RTP.Main.Func(short)
	if f == nil {
		return nil, false
	}
	if short == "Panic" {
		// a panic raised by compiled code with a runtime error value (failed
		// type assertion): classify it by the dynamic type of the value
		cls := ""
		if a, ok := args[0].(Agg); ok && len(a) == 2 {
			if t, ok := a[0].(*smt.Term); ok && t.IsConst() {
				if al := d.M.Mem.Find(t.Uint()); al != nil && strings.Contains(al.Name, "runtime.TypeAssertionError") {
					cls = "typeassert"
				} else if al != nil && al.Name == "@_llgo_string" {
					// llgo raises failed assertions with a string value: read the message
					func() {
						defer func() { recover() }()
						sv := d.M.Mem.Load(a[1].(*smt.Term), d.RT.LayoutOf(types.Typ[types.String]), nil, "panic message")
						if msg, ok := d.RT.ConstStringOf(sv); ok && strings.Contains(msg, "type assertion") {
							cls = "typeassert"
						}
					}()
				}
			}
		}
		d.raise(cls, args[0], "panic raised by compiled code")
	}
	// LLVM passes the same value shapes front end G uses; only the nesting of
	// multiple results differs (tuple), which is identical as well.
	res, pan := d.RT.CallGo(f, args)
	if pan != nil && pan.Class == "exit" {
		// the runtime terminated the program: an unrecovered panic escaped
		panic(&llfe.GoPanic{Class: d.pending, Val: pan.Val, Msg: "unrecovered panic terminated the program in " + short})
	}
	if pan != nil {
		cls, ok := rtClass[short]
		if !ok {
			cls = "rt:" + short
		}
		if short == "AssertRuntimeError" {
			if s, ok := d.RT.ConstStringOf(args[1]); ok {
				cls = classOfMsg(s)
			}
		}
		if pan.Class != "" && pan.Class != "user" {
			cls = pan.Class
		}
		d.raise(cls, pan.Val, short+": "+pan.Msg)
	}
	return res, true
}

// raise performs what a panic statement does in llgo-compiled code: the real
// runtime.Panic runs (front end G): it records the value and either longjmps
// to the innermost deferring frame (a host LongJmp caught by that IR frame) or,
// with no such frame, terminates the program — reported as an escaped panic of
// the given class.
func (d *Driver) raise(cls string, val Value, msg string) {
	if _, isAgg := val.(Agg); !isAgg {
		p := val.(*smt.Term)
		val = Agg{p, p}
	}
	d.pending = cls
	pf := d.RTP.Main.Func("Panic")
	if pf == nil {
		panic(&llfe.GoPanic{Class: cls, Val: val, Msg: msg})
	}
	_, pan := d.RT.CallGo(pf, []Value{val})
	if pan != nil && pan.Class != "exit" {
		panic(&llfe.GoPanic{Class: "rt-internal:" + pan.Class, Val: val, Msg: "runtime.Panic itself panicked: " + pan.Msg})
	}
	panic(&llfe.GoPanic{Class: cls, Val: val, Msg: msg})
}

// NilFault implements llfe.Bridge: a fault in the nil region becomes a Go panic
// through llgo's signal handler.
func (d *Driver) NilFault() {
	d.raise("nilptr", d.M.Mem.Alloc(16, "nilfault").Ptr(), "nil dereference (fault in nil region)")
}

func classOfMsg(s string) string {
	switch {
	case strings.Contains(s, "index out of range"), strings.Contains(s, "slice bounds"), strings.Contains(s, "out of range"):
		return "bounds"
	case strings.Contains(s, "divide"):
		return "divide"
	case strings.Contains(s, "nil pointer"), strings.Contains(s, "nil map"):
		if strings.Contains(s, "map") {
			return "nilmap"
		}
		return "nilptr"
	case strings.Contains(s, "shift"):
		return "shift"
	}
	return "rt-msg:" + s
}

// param builds the symbolic argument for a Go parameter type.
func (d *Driver) param(t types.Type, name string) Value {
	m := d.M
	switch u := t.Underlying().(type) {
	case *types.Basic:
		switch {
		case u.Info()&types.IsBoolean != 0:
			return m.Fresh(name, 0)
		case u.Info()&types.IsString != 0:
			a := m.Mem.AllocSym(d.SliceN, name)
			l := m.Fresh(name+".len", 64)
			m.Assume(smt.Ule(l, smt.Const(64, uint64(d.SliceN))))
			return Agg{a.Ptr(), l}
		case u.Info()&types.IsComplex != 0:
			w := 32
			if u.Kind() == types.Complex128 {
				w = 64
			}
			return Agg{m.Fresh(name+".re", w), m.Fresh(name+".im", w)}
		case u.Kind() == types.UnsafePointer:
			return d.ptrParam(8, name)
		default:
			return m.Fresh(name, d.G.LayoutOf(t).Bits)
		}
	case *types.Slice:
		es := d.G.LayoutOf(u.Elem()).Size
		a := m.Mem.AllocSym(d.SliceN*es, name)
		l, c := m.Fresh(name+".len", 64), m.Fresh(name+".cap", 64)
		m.Assume(smt.BAnd(smt.Ule(l, c), smt.Ule(c, smt.Const(64, uint64(d.SliceN)))))
		// nil slice when cap == 0 is allowed: pointer stays non-nil (harmless)
		return Agg{a.Ptr(), l, c}
	case *types.Pointer:
		return d.ptrParam(d.G.LayoutOf(u.Elem()).Size, name)
	case *types.Struct:
		a := make(Agg, u.NumFields())
		for i := range a {
			a[i] = d.param(u.Field(i).Type(), fmt.Sprintf("%s.%s", name, u.Field(i).Name()))
		}
		return a
	case *types.Array:
		a := make(Agg, int(u.Len()))
		for i := range a {
			a[i] = d.param(u.Elem(), fmt.Sprintf("%s[%d]", name, i))
		}
		return a
	}
	m.Inconclusive("tv.param", "unsupported parameter type "+t.String())
	m.EndPath("unsupported")
	return nil
}

// ptrParam: nil or a pointer to size fresh bytes.
func (d *Driver) ptrParam(size int, name string) Value {
	a := d.M.Mem.AllocSym(size, name)
	isnil := d.M.Fresh(name+".nil", 0)
	return smt.Ite(isnil, smt.Const(64, 0), a.Ptr())
}

// RunFunc explores fn on both sides and asserts equal outcomes.
func (d *Driver) RunFunc(fn *ssa.Function) {
	id := d.Prefix + fn.Name()
	lname := d.PkgPath + "." + fn.Name()
	d.M.Explore(func() {
		d.ResetPath()
		var args []Value
		for i, p := range fn.Params {
			nm := p.Name()
			if nm == "" || nm == "_" {
				nm = fmt.Sprintf("p%d", i)
			}
			args = append(args, d.param(p.Type(), nm))
		}
		if d.AssumeFPRange {
			d.assumeRepresentable(fn, args)
		}
		snap := d.M.Mem.Snapshot()
		// ---- oracle: Go semantics
		var og Outcome
		if d.InitFirst {
			if ini := d.Prog.Main.Func("init"); ini != nil {
				if _, p0 := d.G.CallGo(ini, nil); p0 != nil {
					og.Panic = "panic-in-init:" + p0.Class
				}
			}
		}
		res, pan := d.G.CallGo(fn, args)
		og.Res = res
		if pan != nil {
			og.Panic = "panic:" + pan.Class
			og.PVal = pan.Val
		}
		og.Trace = d.gTrace
		// ---- implementation: llgo's IR on the same initial memory
		d.M.Mem.Restore(snap, nil)
		var ol Outcome
		func() {
			defer func() {
				if r := recover(); r != nil {
					if gp, ok := r.(*llfe.GoPanic); ok {
						ol.Panic = "panic:" + gp.Class
						ol.PVal = gp.Val
						return
					}
					panic(r)
				}
			}()
			if d.InitFirst {
				d.L.CallFunc(d.PkgPath+".init", nil)
			}
			ol.Res = d.L.CallFunc(lname, args)
		}()
		ol.Trace = d.L.Trace
		// ---- compare
		// when two run-time faults coincide (nil array pointer AND index out of
		// range) the spec does not say which is reported
		both := map[string]bool{"panic:nilptr": true, "panic:bounds": true}
		if og.Panic != ol.Panic && both[og.Panic] && both[ol.Panic] {
			ol.Panic = og.Panic
		}
		if og.Panic != ol.Panic {
			d.M.Assert(smt.False, id+".panic", fmt.Sprintf("panic status differs: Go semantics %q, llgo IR %q", show(og.Panic), show(ol.Panic)), "assert")
			d.M.Reach(id)
			return
		}
		d.M.Assert(smt.True, id+".panic", "", "assert")
		if len(og.Trace) != len(ol.Trace) {
			d.M.Assert(smt.False, id+".trace", fmt.Sprintf("external call trace length differs: Go %d, llgo %d", len(og.Trace), len(ol.Trace)), "assert")
		} else {
			eq := smt.True
			detail := ""
			for i := range og.Trace {
				if og.Trace[i].Name != ol.Trace[i].Name || len(og.Trace[i].Args) != len(ol.Trace[i].Args) {
					eq = smt.False
					detail = fmt.Sprintf(" (call #%d: Go %s, llgo %s)", i, og.Trace[i].Name, ol.Trace[i].Name)
					break
				}
				for k := range og.Trace[i].Args {
					e := eqVal(og.Trace[i].Args[k], ol.Trace[i].Args[k])
					if e.IsFalse() && detail == "" {
						detail = fmt.Sprintf(" (call #%d %s: Go %v, llgo %v)", i, og.Trace[i].Name, og.Trace[i].Args[k], ol.Trace[i].Args[k])
					}
					eq = smt.BAnd(eq, e)
				}
			}
			d.M.Assert(eq, id+".trace", "external call trace (names and argument values) differs"+detail, "assert")
		}
		if og.Panic == "" && og.Res != nil {
			d.M.Assert(eqVal(og.Res, ol.Res), id+".result", "result value differs between Go semantics and llgo IR", "assert")
		}
		d.M.Reach(id)
	})
}

func show(p string) string {
	if p == "" {
		return "no panic"
	}
	return p
}

func eqVal(a, b Value) (r *smt.Term) {
	defer func() {
		if e := recover(); e != nil {
			r = smt.False
		}
	}()
	return core.EqValue(a, b)
}

// assumeRepresentable: for a float -> integer conversion function the spec only
// defines the result when the (truncated) value fits the target type.
func (d *Driver) assumeRepresentable(fn *ssa.Function, args []Value) {
	if len(fn.Params) != 1 || fn.Signature.Results().Len() != 1 {
		return
	}
	pt, ok1 := fn.Params[0].Type().Underlying().(*types.Basic)
	rt, ok2 := fn.Signature.Results().At(0).Type().Underlying().(*types.Basic)
	if !ok1 || !ok2 || pt.Info()&types.IsFloat == 0 || rt.Info()&types.IsInteger == 0 {
		return
	}
	w := d.G.LayoutOf(rt).Bits
	d.M.Assume(smt.BNot(llfe.FPOutOfRange(args[0].(*smt.Term), w, rt.Info()&types.IsUnsigned == 0)))
}

func extSym(t *core.Type, name string) Value {
	switch t.Kind {
	case core.KBool:
		return smt.BoolVar(name)
	case core.KInt:
		return smt.Var(name, t.Bits)
	case core.KStruct:
		a := make(Agg, len(t.Fields))
		for i, f := range t.Fields {
			a[i] = extSym(f.T, fmt.Sprintf("%s.%d", name, i))
		}
		return a
	case core.KArray:
		a := make(Agg, t.N)
		for i := range a {
			a[i] = extSym(t.Elem, fmt.Sprintf("%s[%d]", name, i))
		}
		return a
	}
	return nil
}
