package llfe

import (
	"fmt"
	"math"
	"os"
	"strings"

	"github.com/goplus/llgo/zz_verif_symx/core"
	"github.com/goplus/llgo/zz_verif_symx/smt"
)

type Value = core.Value
type Agg = core.Agg

// lval is an SSA value with its poison condition.
type lval struct {
	v      Value
	poison *smt.Term
}

func clean(v Value) lval { return lval{v, smt.False} }

type frame struct {
	fn     *Func
	caller *frame
	env    map[*Instr]lval
	args   []lval
	depth  int
	loops  map[*Instr]int
	allocas []*core.Alloc
	curBlk *Block
	curIdx int
}

// Event is an observable external call.
type Event struct {
	Name string
	Args []Value
}

// GoPanic is raised (as a host panic) by bridged runtime code; the bridge
// converts the front end G panic into this type.
type GoPanic struct {
	Class string
	Val   Value
	Msg   string
}

// Bridge executes calls from IR into llgo's runtime (front end G).
type Bridge interface {
	// Call returns (result, handled).
	Call(x *Exec, name string, fn *Func, args []Value, retTy *Type) (Value, bool)
	// NilFault raises the panic llgo's SIGSEGV handler would raise (does not return).
	NilFault()
}

type Config struct {
	Unwind   int
	MaxDepth int
	MaxSteps int
	PoisonAtSinks bool
	CheckCallABI  bool // calling a definition through a different signature / ABI attributes is UB
}

type Exec struct {
	M      *core.Machine
	Mods   []*Module
	Funcs  map[string]*Func
	Gdefs  map[string]*Global
	Cfg    Config
	Bridge Bridge

	// per path
	galloc   map[string]*core.Alloc
	faddr    map[string]uint64
	addrFn   map[uint64]*Func
	baddr    map[string]uint64 // fn|block -> address
	addrBlk  map[uint64]string
	steps    int
	Trace    []Event
	Encoded  map[string]bool
	Externs  map[string]bool
	hooks    core.AccessHooks
	cur      *frame
	UBEvents int
	ExternValue func(name string, t *Type) Value // result of the k-th external call (shared naming with the oracle side)
	jmp      map[uint64]*jmpPoint
}

func NewExec(m *core.Machine, mods []*Module) *Exec {
	x := &Exec{M: m, Mods: mods, Funcs: map[string]*Func{}, Gdefs: map[string]*Global{}, Encoded: map[string]bool{}, Externs: map[string]bool{}}
	x.Cfg = Config{Unwind: 8, MaxDepth: 60, MaxSteps: 2000000, PoisonAtSinks: true}
	for _, md := range mods {
		for n, f := range md.Funcs {
			if old, ok := x.Funcs[n]; !ok || (old.IsDecl && !f.IsDecl) {
				x.Funcs[n] = f
			}
		}
		for n, g := range md.Globals {
			if old, ok := x.Gdefs[n]; !ok || (old.IsDecl && !g.IsDecl) {
				x.Gdefs[n] = g
			}
		}
	}
	x.hooks.OnNil = func(addr *smt.Term) {
		// an access inside the unmapped nil region traps (SIGSEGV), which llgo's
		// signal handler turns into a Go panic
		if x.Bridge != nil {
			x.Bridge.NilFault()
		}
		panic(&GoPanic{Class: "nilptr", Msg: "nil dereference (fault in nil region)"})
	}
	return x
}

// ResetPath clears the per-path state.
func (x *Exec) ResetPath() {
	x.galloc = map[string]*core.Alloc{}
	x.faddr = map[string]uint64{}
	x.addrFn = map[uint64]*Func{}
	x.baddr = map[string]uint64{}
	x.addrBlk = map[uint64]string{}
	x.steps = 0
	x.Trace = nil
	x.cur = nil
	x.jmp = map[uint64]*jmpPoint{}
}

func (x *Exec) unsupported(what string) {
	if x.cur != nil {
		what += " [in @" + x.cur.fn.Name + "]"
	}
	x.M.Inconclusive("unsupported", "IR: "+what)
	if os.Getenv("SYMX_DEBUG") != "" {
		fmt.Fprintln(os.Stderr, "unsupported IR:", what)
	}
	x.M.EndPath("unsupported")
}

func (x *Exec) ub(id, msg string, cond *smt.Term) {
	// cond = "UB happens"
	if cond.IsFalse() {
		return
	}
	x.M.Assert(smt.BNot(cond), "ub."+id, "LLVM undefined behaviour: "+msg, "ub")
}

// ---- types ---------------------------------------------------------------

var ctypes = map[*Type]*core.Type{}

func CoreType(t *Type) *core.Type {
	if r, ok := ctypes[t]; ok {
		return r
	}
	var r *core.Type
	switch t.Kind {
	case TInt:
		if t.Bits == 1 {
			r = core.TBool
		} else {
			r = &core.Type{Kind: core.KInt, Size: t.Size, Align: t.Align, Bits: t.Bits, Name: t.String()}
		}
	case TFloat:
		r = core.IntType(t.Bits)
	case TPtr:
		r = core.TI64
	case TStruct:
		r = &core.Type{Kind: core.KStruct, Size: t.Size, Align: t.Align, Name: t.Name}
		ctypes[t] = r
		for i, e := range t.Elems {
			r.Fields = append(r.Fields, core.Field{Off: t.Offsets[i], T: CoreType(e)})
		}
		return r
	case TArray:
		r = &core.Type{Kind: core.KArray, Size: t.Size, Align: t.Align, N: t.N, Elem: CoreType(t.Elems[0]), Name: t.String()}
	default:
		panic("CoreType: " + t.String())
	}
	ctypes[t] = r
	return r
}

func zero(t *Type) Value { return core.Zero(CoreType(t)) }

// ---- constants & globals ---------------------------------------------------

func (x *Exec) globalAlloc(name string) *core.Alloc {
	if a, ok := x.galloc[name]; ok {
		return a
	}
	g := x.Gdefs[name]
	if g == nil {
		x.unsupported("unknown global @" + name)
	}
	sz := g.Ty.Size
	a := x.M.Mem.Alloc(sz, "@"+name)
	x.galloc[name] = a
	if g.IsDecl || g.Init == nil {
		// external global: contents unknown
		for i := range a.Bytes {
			a.Bytes[i] = x.M.Fresh(fmt.Sprintf("@%s[%d]", name, i), 8)
		}
		return a
	}
	if sz > 0 {
		v := x.constant(g.Init)
		bs := make([]*smt.Term, sz)
		core.ToBytes(CoreType(g.Ty), v, bs)
		copy(a.Bytes, bs)
	}
	if g.IsConst {
		a.ReadOnly = true
	}
	return a
}

func (x *Exec) funcAddr(name string) *smt.Term {
	if a, ok := x.faddr[name]; ok {
		return smt.Const(64, a)
	}
	al := x.M.Mem.Alloc(1, "fn:@"+name)
	al.ReadOnly = true
	x.faddr[name] = al.Base
	if f := x.Funcs[name]; f != nil {
		x.addrFn[al.Base] = f
	} else {
		x.addrFn[al.Base] = &Func{Name: name, IsDecl: true}
	}
	return al.Ptr()
}

func (x *Exec) Defined(name string) bool {
	f := x.Funcs[name]
	return f != nil && !f.IsDecl
}

// FuncNameAt returns the function whose address is a.
func (x *Exec) FuncNameAt(a uint64) (string, bool) {
	if f := x.addrFn[a]; f != nil {
		return f.Name, true
	}
	return "", false
}

func (x *Exec) blockAddr(fn, blk string) *smt.Term {
	k := fn + "|" + blk
	if a, ok := x.baddr[k]; ok {
		return smt.Const(64, a)
	}
	al := x.M.Mem.Alloc(1, "blockaddress:"+k)
	al.ReadOnly = true
	x.baddr[k] = al.Base
	x.addrBlk[al.Base] = blk
	return al.Ptr()
}

func floatBits(t *Type, f float64) *smt.Term {
	if t.Bits == 32 {
		return smt.Const(32, uint64(math.Float32bits(float32(f))))
	}
	return smt.Const(64, math.Float64bits(f))
}

func (x *Exec) constant(v *IRValue) Value {
	switch v.Kind {
	case VConstInt:
		if v.Ty.Bits == 1 {
			return smt.Bool(v.Int&1 == 1)
		}
		return smt.Const(v.Ty.Bits, v.Int)
	case VConstFP:
		return floatBits(v.Ty, v.FP)
	case VNull:
		return smt.Const(64, 0)
	case VZero:
		return zero(v.Ty)
	case VUndef:
		if strings.HasPrefix(v.Name, "unknown:") || strings.HasPrefix(v.Name, "unparsed") {
			x.unsupported("constant " + v.Name)
		}
		return x.undef(v.Ty)
	case VConstAgg:
		a := make(Agg, len(v.Elems))
		for i, e := range v.Elems {
			a[i] = x.constant(e)
		}
		return a
	case VGlobal:
		return x.globalAlloc(v.Name).Ptr()
	case VFunc:
		return x.funcAddr(v.Name)
	case VBlockAddr:
		return x.blockAddr(v.Fn, v.Name)
	case VConstExpr:
		in := v.Ins
		ops := make([]lval, len(in.Ops))
		for i, o := range in.Ops {
			ops[i] = clean(x.constant(o))
		}
		if in.Op == "bigint" {
			x.unsupported("integer constant wider than 64 bits")
		}
		r := x.compute(nil, in, ops)
		return r.v
	}
	x.unsupported(fmt.Sprintf("constant kind %d", v.Kind))
	return nil
}

// undef: an arbitrary (fresh) value of the type.
func (x *Exec) undef(t *Type) Value {
	switch t.Kind {
	case TInt:
		if t.Bits == 1 {
			return x.M.Fresh("undef", 0)
		}
		return x.M.Fresh("undef", t.Bits)
	case TFloat, TPtr:
		return x.M.Fresh("undef", t.Bits)
	case TStruct:
		a := make(Agg, len(t.Elems))
		for i, e := range t.Elems {
			a[i] = x.undef(e)
		}
		return a
	case TArray:
		a := make(Agg, t.N)
		for i := range a {
			a[i] = x.undef(t.Elems[0])
		}
		return a
	}
	x.unsupported("undef of type " + t.String())
	return nil
}

func (x *Exec) operand(fr *frame, v *IRValue) lval {
	switch v.Kind {
	case VArg:
		return fr.args[v.Idx]
	case VInstr:
		r, ok := fr.env[v.Ins]
		if !ok {
			panic(fmt.Sprintf("llfe: use of undefined %%%s in @%s: %s", v.Ins.Name, fr.fn.Name, v.Ins.Text))
		}
		return r
	}
	return clean(x.constant(v))
}

// ---- execution --------------------------------------------------------------

// CallFunc runs a defined function on argument values.
func (x *Exec) CallFunc(name string, args []Value) Value {
	f := x.Funcs[name]
	if f == nil || f.IsDecl {
		x.unsupported("function @" + name + " not defined in the loaded modules")
	}
	la := make([]lval, len(args))
	for i, a := range args {
		la[i] = clean(a)
	}
	r := x.call(nil, f, la)
	if r.poison != nil {
		x.ub("poison-result", "function @"+name+" returns a poison value", r.poison)
	}
	return r.v
}

func (x *Exec) call(caller *frame, f *Func, args []lval) lval {
	fr := &frame{fn: f, caller: caller, env: map[*Instr]lval{}, args: args, loops: map[*Instr]int{}}
	if caller != nil {
		fr.depth = caller.depth + 1
	}
	if fr.depth > x.Cfg.MaxDepth {
		x.M.Inconclusive("unwind.recursion", "IR recursion depth exceeded in @"+f.Name)
		x.M.EndPath("unwind")
	}
	x.Encoded["@"+f.Name] = true
	saved := x.cur
	x.cur = fr
	defer func() { x.cur = saved }()
	blk := f.Blocks[0]
	prev := ""
	start := 0
	for {
		next, ret, done, lj := x.runBlockProtected(fr, blk, prev, start)
		if lj != nil {
			// siglongjmp to a sigsetjmp of this frame: resume right after the
			// call, which now yields the longjmp value (memory is unchanged,
			// SSA values defined so far are still valid: -O0 semantics)
			jp := x.jmp[lj.Buf]
			x.cur = fr
			blk, start = jp.blk, jp.idx+1
			fr.env[jp.in] = clean(smt.Resize(lj.Val, jp.in.Ty.Bits, true))
			continue
		}
		if done {
			return ret
		}
		start = 0
		prev = blk.Name
		nb := f.BlockIx[next]
		if nb == nil {
			x.unsupported("branch to unknown block " + next)
		}
		blk = nb
	}
}

type jmpPoint struct {
	fr  *frame
	blk *Block
	idx int
	in  *Instr
}

func (x *Exec) runBlockProtected(fr *frame, b *Block, prev string, start int) (next string, ret lval, done bool, lj *core.LongJmp) {
	defer func() {
		if r := recover(); r != nil {
			if l, ok := r.(*core.LongJmp); ok {
				if jp := x.jmp[l.Buf]; jp != nil && jp.fr == fr {
					lj = l
					return
				}
			}
			panic(r)
		}
	}()
	next, ret, done = x.runBlock(fr, b, prev, start)
	return
}

func (x *Exec) runBlock(fr *frame, b *Block, prev string, start int) (next string, ret lval, done bool) {
	// phis read their inputs simultaneously
	var phiVals []lval
	var phis []*Instr
	for _, in := range b.Instrs {
		if in.Op != "phi" {
			break
		}
		if start > 0 {
			phis = append(phis, in)
			continue
		}
		found := false
		for k, bn := range in.Blocks {
			if bn == prev {
				phiVals = append(phiVals, x.operand(fr, in.Ops[k]))
				found = true
				break
			}
		}
		if !found {
			x.unsupported("phi without incoming for predecessor " + prev)
		}
		phis = append(phis, in)
	}
	if start == 0 {
		for i, in := range phis {
			fr.env[in] = phiVals[i]
		}
	}
	first := len(phis)
	if start > first {
		first = start
	}
	fr.curBlk = b
	for idx := first; idx < len(b.Instrs); idx++ {
		in := b.Instrs[idx]
		fr.curIdx = idx
		x.steps++
		if x.steps > x.Cfg.MaxSteps {
			x.M.Inconclusive("unwind.steps", "IR step limit")
			x.M.EndPath("steps")
		}
		switch in.Op {
		case "br":
			if len(in.Ops) == 0 {
				return in.Blocks[0], lval{}, false
			}
			c := x.operand(fr, in.Ops[0])
			x.ub("branch-on-poison", "branch on a poison value: "+in.Text, c.poison)
			ct := c.v.(*smt.Term)
			var taken bool
			if ct.IsBoolConst() {
				taken = ct.IsTrue()
			} else {
				fr.loops[in]++
				if fr.loops[in] > x.Cfg.Unwind {
					x.M.Inconclusive("unwind.loop", fmt.Sprintf("IR unwinding bound %d exceeded in @%s", x.Cfg.Unwind, fr.fn.Name))
					x.M.EndPath("unwind")
				}
				taken = x.M.Branch(ct)
			}
			if taken {
				return in.Blocks[0], lval{}, false
			}
			return in.Blocks[1], lval{}, false
		case "switch":
			c := x.operand(fr, in.Ops[0])
			x.ub("branch-on-poison", "switch on a poison value", c.poison)
			ct := c.v.(*smt.Term)
			for k := 1; k < len(in.Ops); k++ {
				cv := x.constant(in.Ops[k]).(*smt.Term)
				if x.M.Branch(smt.Eq(ct, cv)) {
					return in.Blocks[k], lval{}, false
				}
			}
			return in.Blocks[0], lval{}, false
		case "indirectbr":
			a := x.operand(fr, in.Ops[0])
			x.ub("branch-on-poison", "indirectbr on poison", a.poison)
			addr := x.concretize(a.v.(*smt.Term), "indirectbr target")
			blk, ok := x.addrBlk[addr]
			if !ok {
				x.ub("indirectbr", "indirectbr to an address that is not a blockaddress", smt.True)
				x.M.EndPath("ub")
			}
			return blk, lval{}, false
		case "ret":
			if len(in.Ops) == 0 {
				return "", lval{}, true
			}
			r := x.operand(fr, in.Ops[0])
			return "", r, true
		case "unreachable":
			x.ub("unreachable", "reached 'unreachable' in @"+fr.fn.Name, smt.True)
			x.M.EndPath("ub")
		case "store":
			v := x.operand(fr, in.Ops[0])
			p := x.operand(fr, in.Ops[1])
			x.ub("poison-address", "store through a poison pointer", p.poison)
			if x.Cfg.PoisonAtSinks {
				x.ub("poison-store", "poison value stored to memory: "+in.Text, v.poison)
			}
			x.M.Mem.Store(p.v.(*smt.Term), CoreType(in.Ops[0].Ty), v.v, &x.hooks, "store in @"+fr.fn.Name)
		case "fence":
		default:
			ops := make([]lval, len(in.Ops))
			for i, o := range in.Ops {
				if o.Kind == VBlock || o.Kind == VMetadata {
					continue
				}
				if in.Op == "call" && i == len(in.Ops)-1 && o.Kind == VFunc {
					continue // direct callee handled by name
				}
				ops[i] = x.operand(fr, o)
			}
			r := x.compute(fr, in, ops)
			if in.Ty.Kind != TVoid {
				fr.env[in] = r
			}
		}
	}
	panic("block without terminator: " + b.Name)
}

func (x *Exec) concretize(t *smt.Term, what string) uint64 {
	for d := 0; d < 64; d++ {
		if t.IsConst() {
			return t.Uint()
		}
		if t.Op == smt.OIte {
			if x.M.Branch(t.Args[0]) {
				t = t.Args[1]
			} else {
				t = t.Args[2]
			}
			continue
		}
		break
	}
	x.unsupported("cannot concretize " + what + ": " + t.String())
	return 0
}

func orP(ps ...*smt.Term) *smt.Term {
	r := smt.False
	for _, p := range ps {
		if p != nil {
			r = smt.BOr(r, p)
		}
	}
	return r
}

func tt(v lval) *smt.Term { return v.v.(*smt.Term) }

// compute evaluates a non-terminator instruction (or constant expression).
func (x *Exec) compute(fr *frame, in *Instr, ops []lval) lval {
	p := smt.False
	for _, o := range ops {
		if o.poison != nil {
			p = smt.BOr(p, o.poison)
		}
	}
	res := func(v Value) lval { return lval{v, p} }
	switch in.Op {
	case "add", "sub", "mul", "and", "or", "xor", "shl", "lshr", "ashr", "udiv", "sdiv", "urem", "srem":
		a, b := tt(ops[0]), tt(ops[1])
		if a.IsBool() {
			switch in.Op {
			case "and":
				return res(smt.BAnd(a, b))
			case "or":
				return res(smt.BOr(a, b))
			case "xor", "add", "sub":
				return res(smt.BNot(smt.Eq(a, b)))
			case "mul":
				return res(smt.BAnd(a, b))
			}
			x.unsupported("i1 " + in.Op)
		}
		w := a.W
		switch in.Op {
		case "add":
			r := smt.Add(a, b)
			if in.NSW {
				sa, sb, sr := smt.SExt(a, w+1), smt.SExt(b, w+1), smt.Add(smt.SExt(a, w+1), smt.SExt(b, w+1))
				_ = sa
				_ = sb
				p = smt.BOr(p, smt.Ne(smt.SExt(r, w+1), sr))
			}
			if in.NUW {
				p = smt.BOr(p, smt.Ult(r, a))
			}
			return res(r)
		case "sub":
			r := smt.Sub(a, b)
			if in.NSW {
				p = smt.BOr(p, smt.Ne(smt.SExt(r, w+1), smt.Sub(smt.SExt(a, w+1), smt.SExt(b, w+1))))
			}
			if in.NUW {
				p = smt.BOr(p, smt.Ult(a, b))
			}
			return res(r)
		case "mul":
			r := smt.Mul(a, b)
			if in.NSW && w <= 32 {
				p = smt.BOr(p, smt.Ne(smt.SExt(r, 2*w), smt.Mul(smt.SExt(a, 2*w), smt.SExt(b, 2*w))))
			} else if in.NSW || in.NUW {
				x.M.Inconclusive("ub.mul-flags", "nsw/nuw on wide mul not modelled")
			}
			return res(r)
		case "and":
			return res(smt.And(a, b))
		case "or":
			return res(smt.Or(a, b))
		case "xor":
			return res(smt.Xor(a, b))
		case "shl", "lshr", "ashr":
			p = smt.BOr(p, smt.Uge(b, smt.Const(w, uint64(w))))
			switch in.Op {
			case "shl":
				return res(smt.Shl(a, b))
			case "lshr":
				return res(smt.LShr(a, b))
			}
			return res(smt.AShr(a, b))
		case "udiv", "urem", "sdiv", "srem":
			// division by zero and INT_MIN / -1 are immediate UB
			x.ub("div-by-zero", "division by zero in "+in.Text, smt.BOr(smt.Eq(b, smt.Const(w, 0)), p))
			if in.Op == "sdiv" || in.Op == "srem" {
				minv := smt.Const(w, uint64(1)<<uint(w-1))
				x.ub("sdiv-overflow", "signed division overflow (MIN / -1) in "+in.Text, smt.BAnd(smt.Eq(a, minv), smt.Eq(b, smt.Const(w, ^uint64(0)))))
			}
			switch in.Op {
			case "udiv":
				return res(smt.UDiv(a, b))
			case "urem":
				return res(smt.URem(a, b))
			case "sdiv":
				return res(smt.SDiv(a, b))
			}
			return res(smt.SRem(a, b))
		}
	case "icmp":
		a, b := tt(ops[0]), tt(ops[1])
		if a.IsBool() {
			a, b = smt.BoolToBV(a, 1), smt.BoolToBV(b, 1)
		}
		var r *smt.Term
		switch in.Pred {
		case "eq":
			r = smt.Eq(a, b)
		case "ne":
			r = smt.Ne(a, b)
		case "ugt":
			r = smt.Ugt(a, b)
		case "uge":
			r = smt.Uge(a, b)
		case "ult":
			r = smt.Ult(a, b)
		case "ule":
			r = smt.Ule(a, b)
		case "sgt":
			r = smt.Sgt(a, b)
		case "sge":
			r = smt.Sge(a, b)
		case "slt":
			r = smt.Slt(a, b)
		case "sle":
			r = smt.Sle(a, b)
		default:
			x.unsupported("icmp " + in.Pred)
		}
		return res(r)
	case "select":
		c := ops[0]
		ct := tt(c)
		pp := smt.BOr(c.poison, smt.Ite(ct, ops[1].poison, ops[2].poison))
		return lval{core.IteValue(ct, ops[1].v, ops[2].v), pp}
	case "trunc":
		a := tt(ops[0])
		if in.Ty.Bits == 1 {
			return res(smt.Eq(smt.Extract(a, 0, 0), smt.Const(1, 1)))
		}
		return res(smt.Extract(a, in.Ty.Bits-1, 0))
	case "zext":
		a := tt(ops[0])
		if a.IsBool() {
			return res(smt.BoolToBV(a, in.Ty.Bits))
		}
		return res(smt.ZExt(a, in.Ty.Bits))
	case "sext":
		a := tt(ops[0])
		if a.IsBool() {
			return res(smt.Ite(a, smt.Const(in.Ty.Bits, ^uint64(0)), smt.Const(in.Ty.Bits, 0)))
		}
		return res(smt.SExt(a, in.Ty.Bits))
	case "ptrtoint":
		return res(smt.Resize(tt(ops[0]), in.Ty.Bits, false))
	case "inttoptr":
		return res(smt.Resize(tt(ops[0]), 64, false))
	case "bitcast":
		return res(ops[0].v)
	case "freeze":
		// freeze of possibly-poison value: arbitrary but fixed value where poison
		v := ops[0]
		if v.poison.IsFalse() {
			return clean(v.v)
		}
		return clean(core.IteValue(v.poison, x.undef(in.Ty), v.v))
	case "extractvalue":
		v := ops[0].v
		for _, i := range in.Indices {
			v = v.(Agg)[i]
		}
		return res(v)
	case "insertvalue":
		return res(insertAt(ops[0].v, ops[1].v, in.Indices))
	case "alloca":
		n := 1
		if len(in.Ops) > 0 && in.Ops[0].Kind == VConstInt {
			n = int(in.Ops[0].Int)
		} else if len(in.Ops) > 0 {
			t := tt(ops[0])
			if !t.IsConst() {
				x.unsupported("alloca with symbolic count")
			}
			n = int(t.Uint())
		}
		a := x.M.Mem.AllocSym(in.SrcTy.Size*n, "alloca")
		if fr != nil {
			fr.allocas = append(fr.allocas, a)
		}
		return clean(a.Ptr())
	case "load":
		pv := ops[0]
		x.ub("poison-address", "load through a poison pointer", pv.poison)
		return clean(x.M.Mem.Load(tt(pv), CoreType(in.Ty), &x.hooks, "load in @"+fnName(fr)))
	case "getelementptr":
		base := tt(ops[0])
		ty := in.SrcTy
		off := smt.Const(64, 0)
		for i := 1; i < len(ops); i++ {
			idx := tt(ops[i])
			idx = smt.Resize(idx, 64, true)
			if i == 1 {
				off = smt.Add(off, smt.Mul(idx, smt.Const(64, uint64(ty.Size))))
				continue
			}
			switch ty.Kind {
			case TStruct:
				if !idx.IsConst() {
					x.unsupported("GEP with symbolic struct index")
				}
				k := int(idx.Uint())
				off = smt.Add(off, smt.Const(64, uint64(ty.Offsets[k])))
				ty = ty.Elems[k]
			case TArray:
				ty = ty.Elems[0]
				off = smt.Add(off, smt.Mul(idx, smt.Const(64, uint64(ty.Size))))
			default:
				x.unsupported("GEP into " + ty.String())
			}
		}
		return res(smt.Add(base, off))
	case "call":
		return x.doCall(fr, in, ops)
	case "fadd", "fsub", "fmul", "fdiv", "frem":
		a, b := tt(ops[0]), tt(ops[1])
		if in.Op == "frem" {
			x.unsupported("frem")
		}
		return res(fpBin("fp."+in.Op[1:], a, b))
	case "fneg":
		a := tt(ops[0])
		return res(smt.Xor(a, smt.Const(a.W, 1<<uint(a.W-1))))
	case "fcmp":
		return res(fpCmp(in.Pred, tt(ops[0]), tt(ops[1])))
	case "fpext", "fptrunc":
		a := tt(ops[0])
		return res(fromFP(smt.Raw(fpTo(in.Ty.Bits)+" RNE", -1, fpSort(in.Ty.Bits), toFP(a)), in.Ty.Bits))
	case "sitofp":
		a := tt(ops[0])
		return res(fromFP(smt.Raw(fpTo(in.Ty.Bits)+" RNE", -1, fpSort(in.Ty.Bits), a), in.Ty.Bits))
	case "uitofp":
		a := tt(ops[0])
		head := fmt.Sprintf("(_ to_fp_unsigned %s RNE", fpTo(in.Ty.Bits)[len("(_ to_fp "):])
		return res(fromFP(smt.Raw(head, -1, fpSort(in.Ty.Bits), a), in.Ty.Bits))
	case "fptosi", "fptoui":
		a := tt(ops[0])
		w := in.Ty.Bits
		// out-of-range conversion yields poison
		var r *smt.Term
		f := toFP(a)
		if in.Op == "fptosi" {
			r = smt.Raw(fmt.Sprintf("(_ fp.to_sbv %d) RTZ", w), w, "", f)
		} else {
			r = smt.Raw(fmt.Sprintf("(_ fp.to_ubv %d) RTZ", w), w, "", f)
		}
		p = smt.BOr(p, fpOutOfRange(a, w, in.Op == "fptosi"))
		return res(r)
	case "atomicrmw":
		ptr, val := tt(ops[0]), ops[1].v
		ct := CoreType(in.Ty)
		old := x.M.Mem.Load(ptr, ct, &x.hooks, "atomicrmw")
		var nv Value
		o, v := old.(*smt.Term), val.(*smt.Term)
		switch in.RMWOp {
		case "xchg":
			nv = v
		case "add":
			nv = smt.Add(o, v)
		case "sub":
			nv = smt.Sub(o, v)
		case "and":
			nv = smt.And(o, v)
		case "or":
			nv = smt.Or(o, v)
		case "xor":
			nv = smt.Xor(o, v)
		default:
			x.unsupported("atomicrmw " + in.RMWOp)
		}
		x.M.Mem.Store(ptr, ct, nv, &x.hooks, "atomicrmw")
		return res(old)
	case "cmpxchg":
		ptr, cmp, nv := tt(ops[0]), ops[1].v, ops[2].v
		ct := CoreType(in.Ops[1].Ty)
		old := x.M.Mem.Load(ptr, ct, &x.hooks, "cmpxchg")
		eq := core.EqValue(old, cmp)
		x.M.Mem.Store(ptr, ct, core.IteValue(eq, nv, old), &x.hooks, "cmpxchg")
		return res(Agg{old, eq})
	}
	x.unsupported("instruction " + in.Op + ": " + in.Text)
	return lval{}
}

func fnName(fr *frame) string {
	if fr == nil {
		return "<const>"
	}
	return fr.fn.Name
}

func insertAt(agg Value, v Value, idx []uint32) Value {
	a := append(Agg(nil), agg.(Agg)...)
	if len(idx) == 1 {
		a[idx[0]] = v
	} else {
		a[idx[0]] = insertAt(a[idx[0]], v, idx[1:])
	}
	return a
}

// ---- floats (bit patterns, as in front end G) --------------------------------

func fpSort(w int) string {
	if w == 32 {
		return "(_ FloatingPoint 8 24)"
	}
	return "(_ FloatingPoint 11 53)"
}

func fpTo(w int) string {
	if w == 32 {
		return "(_ to_fp 8 24)"
	}
	return "(_ to_fp 11 53)"
}

func toFP(b *smt.Term) *smt.Term          { return smt.Raw(fpTo(b.W), -1, fpSort(b.W), b) }
func fromFP(f *smt.Term, w int) *smt.Term { return smt.Raw("fp.to_ieee_bv", w, "", f) }
func fpBin(op string, a, b *smt.Term) *smt.Term {
	return fromFP(smt.Raw(op+" RNE", -1, fpSort(a.W), toFP(a), toFP(b)), a.W)
}

func fpCmp(pred string, a, b *smt.Term) *smt.Term {
	fa, fb := toFP(a), toFP(b)
	nan := smt.BOr(smt.Raw("fp.isNaN", 0, "", fa), smt.Raw("fp.isNaN", 0, "", fb))
	ord := func(t *smt.Term) *smt.Term { return smt.BAnd(smt.BNot(nan), t) }
	uno := func(t *smt.Term) *smt.Term { return smt.BOr(nan, t) }
	eq := smt.Raw("fp.eq", 0, "", fa, fb)
	lt := smt.Raw("fp.lt", 0, "", fa, fb)
	le := smt.Raw("fp.leq", 0, "", fa, fb)
	gt := smt.Raw("fp.gt", 0, "", fa, fb)
	ge := smt.Raw("fp.geq", 0, "", fa, fb)
	switch pred {
	case "oeq":
		return ord(eq)
	case "one":
		return ord(smt.BNot(eq))
	case "olt":
		return ord(lt)
	case "ole":
		return ord(le)
	case "ogt":
		return ord(gt)
	case "oge":
		return ord(ge)
	case "ord":
		return smt.BNot(nan)
	case "uno":
		return nan
	case "ueq":
		return uno(eq)
	case "une":
		return uno(smt.BNot(eq))
	case "ult":
		return uno(lt)
	case "ule":
		return uno(le)
	case "ugt":
		return uno(gt)
	case "uge":
		return uno(ge)
	case "true":
		return smt.True
	}
	return smt.False
}

// fpOutOfRange: the float (bit pattern a) does not fit an integer of width w
// after truncation toward zero (NaN included).
func fpOutOfRange(a *smt.Term, w int, signed bool) *smt.Term {
	f := toFP(a)
	nan := smt.Raw("fp.isNaN", 0, "", f)
	inf := smt.Raw("fp.isInfinite", 0, "", f)
	lit := func(v float64) *smt.Term {
		if a.W == 32 {
			return toFP(smt.Const(32, uint64(math.Float32bits(float32(v)))))
		}
		return toFP(smt.Const(64, math.Float64bits(v)))
	}
	var lo, hi *smt.Term
	if signed {
		// valid iff -2^(w-1) - 1 < x < 2^(w-1)
		hi = smt.Raw("fp.geq", 0, "", f, lit(math.Ldexp(1, w-1)))
		lo = smt.Raw("fp.leq", 0, "", f, lit(-math.Ldexp(1, w-1)-1))
		if a.W == 32 || w > 52 {
			// -2^(w-1)-1 is not representable: x < -2^(w-1) is out of range
			lo = smt.Raw("fp.lt", 0, "", f, lit(-math.Ldexp(1, w-1)))
		}
	} else {
		hi = smt.Raw("fp.geq", 0, "", f, lit(math.Ldexp(1, w)))
		lo = smt.Raw("fp.leq", 0, "", f, lit(-1))
	}
	return smt.OrAll(nan, inf, lo, hi)
}

// FPOutOfRange is exported for the translation-validation driver.
func FPOutOfRange(a *smt.Term, w int, signed bool) *smt.Term { return fpOutOfRange(a, w, signed) }
