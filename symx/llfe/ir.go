// Package llfe is front end L: llgo-emitted LLVM IR, converted from the live
// llvm.Module into plain Go data and executed symbolically with LLVM LangRef
// semantics (poison / UB tracked) on the core machine.
package llfe

import (
	"fmt"
	"math"
	"strings"

	"github.com/xgo-dev/llvm"
)

type TKind uint8

const (
	TVoid TKind = iota
	TInt
	TFloat
	TPtr
	TStruct
	TArray
	TFunc
	TLabel
	TOther
)

type Type struct {
	Kind    TKind
	Bits    int
	Elems   []*Type
	N       int
	Size    int
	Align   int
	Offsets []int
	Name    string
	Ret     *Type
	VarArg  bool
	Vec     string // "<n x elem>" for vector types (handled as opaque bit-vectors)
}

func (t *Type) String() string {
	if t.Vec != "" {
		return t.Vec
	}
	switch t.Kind {
	case TVoid:
		return "void"
	case TInt:
		return fmt.Sprintf("i%d", t.Bits)
	case TFloat:
		return fmt.Sprintf("f%d", t.Bits)
	case TPtr:
		return "ptr"
	case TStruct:
		var s []string
		for _, e := range t.Elems {
			s = append(s, e.String())
		}
		return "{" + strings.Join(s, ",") + "}"
	case TArray:
		return fmt.Sprintf("[%d x %s]", t.N, t.Elems[0])
	case TFunc:
		return "func"
	}
	return "?"
}

type VKind uint8

const (
	VConstInt VKind = iota
	VConstFP
	VNull
	VUndef
	VZero     // zeroinitializer
	VConstAgg // struct / array constant
	VConstExpr
	VGlobal
	VFunc
	VArg
	VInstr
	VBlock
	VBlockAddr
	VInlineAsm
	VMetadata
)

type IRValue struct {
	Kind  VKind
	Ty    *Type
	Int   uint64  // VConstInt
	FP    float64 // VConstFP
	Name  string  // global / func / block name
	Idx   int     // arg index
	Ins   *Instr  // VInstr / VConstExpr (as pseudo instruction)
	Elems []*IRValue
	Fn    string // VBlockAddr: function name
}

type Instr struct {
	Op      string
	Ty      *Type
	Ops     []*IRValue
	Name    string
	Pred    string   // icmp / fcmp predicate
	SrcTy   *Type    // GEP source element type / alloca type / load type
	Indices []uint32 // extractvalue / insertvalue
	FnTy    *Type    // call: callee function type
	Blocks  []string // phi incoming blocks, br / switch / indirectbr targets
	NSW     bool
	NUW     bool
	Exact   bool
	InBounds bool
	Atomic  string // ordering for atomic ops
	RMWOp   string
	Attrs   []string // call: ABI-relevant attributes, [0] return, [1+i] argument i
	Text    string
	ID      int
}

type Block struct {
	Name   string
	Instrs []*Instr
}

type Func struct {
	Name    string
	Ty      *Type
	Params  []*IRValue
	Blocks  []*Block
	BlockIx map[string]*Block
	IsDecl  bool
	Linkage string
	Module  string
	NInstr  int
	Attrs   []string // ABI-relevant attributes: [0] return, [1+i] parameter i
}

type Global struct {
	Name    string
	Ty      *Type
	Init    *IRValue
	IsConst bool
	IsDecl  bool
	Linkage string
	Module  string
}

type Module struct {
	Name    string
	Funcs   map[string]*Func
	Globals map[string]*Global
	Order   []string // function definition order
	GOrder  []string
	Text    string
}

type conv struct {
	td      llvm.TargetData
	types   map[llvm.Type]*Type
	values  map[llvm.Value]*IRValue
	instrs  map[llvm.Value]*Instr
	blockNm map[llvm.BasicBlock]string
	gnames  map[llvm.Value]string
	mod     *Module
	nid     int
}

var opNames = map[llvm.Opcode]string{
	llvm.Ret: "ret", llvm.Br: "br", llvm.Switch: "switch", llvm.IndirectBr: "indirectbr", llvm.Invoke: "invoke", llvm.Unreachable: "unreachable",
	llvm.Add: "add", llvm.FAdd: "fadd", llvm.Sub: "sub", llvm.FSub: "fsub", llvm.Mul: "mul", llvm.FMul: "fmul", llvm.UDiv: "udiv", llvm.SDiv: "sdiv",
	llvm.FDiv: "fdiv", llvm.URem: "urem", llvm.SRem: "srem", llvm.FRem: "frem", llvm.Shl: "shl", llvm.LShr: "lshr", llvm.AShr: "ashr", llvm.And: "and",
	llvm.Or: "or", llvm.Xor: "xor", llvm.Alloca: "alloca", llvm.Load: "load", llvm.Store: "store", llvm.GetElementPtr: "getelementptr",
	llvm.Trunc: "trunc", llvm.ZExt: "zext", llvm.SExt: "sext", llvm.FPToUI: "fptoui", llvm.FPToSI: "fptosi", llvm.UIToFP: "uitofp", llvm.SIToFP: "sitofp",
	llvm.FPTrunc: "fptrunc", llvm.FPExt: "fpext", llvm.PtrToInt: "ptrtoint", llvm.IntToPtr: "inttoptr", llvm.BitCast: "bitcast", llvm.ICmp: "icmp",
	llvm.FCmp: "fcmp", llvm.PHI: "phi", llvm.Call: "call", llvm.Select: "select", llvm.ExtractValue: "extractvalue", llvm.InsertValue: "insertvalue",
}

var intPreds = map[llvm.IntPredicate]string{llvm.IntEQ: "eq", llvm.IntNE: "ne", llvm.IntUGT: "ugt", llvm.IntUGE: "uge", llvm.IntULT: "ult",
	llvm.IntULE: "ule", llvm.IntSGT: "sgt", llvm.IntSGE: "sge", llvm.IntSLT: "slt", llvm.IntSLE: "sle"}

var fpPreds = map[llvm.FloatPredicate]string{llvm.FloatOEQ: "oeq", llvm.FloatOGT: "ogt", llvm.FloatOGE: "oge", llvm.FloatOLT: "olt", llvm.FloatOLE: "ole",
	llvm.FloatONE: "one", llvm.FloatORD: "ord", llvm.FloatUNO: "uno", llvm.FloatUEQ: "ueq", llvm.FloatUGT: "ugt", llvm.FloatUGE: "uge", llvm.FloatULT: "ult",
	llvm.FloatULE: "ule", llvm.FloatUNE: "une", llvm.FloatPredicateTrue: "true", llvm.FloatPredicateFalse: "false"}

var linkNames = map[llvm.Linkage]string{llvm.ExternalLinkage: "external", llvm.LinkOnceAnyLinkage: "linkonce", llvm.LinkOnceODRLinkage: "linkonce_odr",
	llvm.WeakAnyLinkage: "weak", llvm.WeakODRLinkage: "weak_odr", llvm.InternalLinkage: "internal", llvm.PrivateLinkage: "private",
	llvm.CommonLinkage: "common", llvm.AvailableExternallyLinkage: "available_externally", llvm.ExternalWeakLinkage: "extern_weak", llvm.AppendingLinkage: "appending"}

// Convert walks a live module into plain data.
func Convert(m llvm.Module, name string, withText bool) *Module {
	dl := m.DataLayout()
	c := &conv{td: llvm.NewTargetData(dl), types: map[llvm.Type]*Type{}, values: map[llvm.Value]*IRValue{}, instrs: map[llvm.Value]*Instr{},
		blockNm: map[llvm.BasicBlock]string{}, gnames: map[llvm.Value]string{}, mod: &Module{Name: name, Funcs: map[string]*Func{}, Globals: map[string]*Global{}}}
	defer c.td.Dispose()
	if withText {
		c.mod.Text = m.String()
	}
	anon := 0
	for g := m.FirstGlobal(); !g.IsNil(); g = llvm.NextGlobal(g) {
		if g.Name() == "" {
			c.gnames[g] = fmt.Sprintf("$anon.%s.%d", name, anon)
			anon++
		} else {
			c.gnames[g] = g.Name()
		}
	}
	for g := m.FirstGlobal(); !g.IsNil(); g = llvm.NextGlobal(g) {
		gl := &Global{Name: c.gnames[g], IsConst: g.IsGlobalConstant(), IsDecl: g.IsDeclaration(), Linkage: linkNames[g.Linkage()], Module: name}
		gl.Ty = c.typ(g.GlobalValueType())
		if !gl.IsDecl {
			gl.Init = c.val(g.Initializer())
		}
		c.mod.Globals[gl.Name] = gl
		c.mod.GOrder = append(c.mod.GOrder, gl.Name)
	}
	for f := m.FirstFunction(); !f.IsNil(); f = llvm.NextFunction(f) {
		fn := &Func{Name: f.Name(), IsDecl: f.IsDeclaration(), Linkage: linkNames[f.Linkage()], Module: name, BlockIx: map[string]*Block{}}
		fn.Ty = c.typ(f.GlobalValueType())
		c.mod.Funcs[fn.Name] = fn
		for i := 0; i <= len(fn.Ty.Elems); i++ {
			fn.Attrs = append(fn.Attrs, c.abiAttrs(func(k uint) llvm.Attribute { return f.GetEnumAttributeAtIndex(i, k) }))
		}
		if fn.IsDecl {
			continue
		}
		c.mod.Order = append(c.mod.Order, fn.Name)
		for i, p := range f.Params() {
			v := &IRValue{Kind: VArg, Ty: c.typ(p.Type()), Idx: i, Name: p.Name()}
			c.values[p] = v
			fn.Params = append(fn.Params, v)
		}
		// name blocks first (forward references)
		bi := 0
		for bb := f.FirstBasicBlock(); !bb.IsNil(); bb = llvm.NextBasicBlock(bb) {
			nm := bb.AsValue().Name()
			if nm == "" {
				nm = fmt.Sprintf("%%bb%d", bi)
			}
			c.blockNm[bb] = nm
			bi++
		}
		// create instruction shells first (phi forward references)
		for bb := f.FirstBasicBlock(); !bb.IsNil(); bb = llvm.NextBasicBlock(bb) {
			b := &Block{Name: c.blockNm[bb]}
			for ins := bb.FirstInstruction(); !ins.IsNil(); ins = llvm.NextInstruction(ins) {
				c.nid++
				in := &Instr{ID: c.nid, Name: ins.Name()}
				c.instrs[ins] = in
				c.values[ins] = &IRValue{Kind: VInstr, Ins: in}
				b.Instrs = append(b.Instrs, in)
				fn.NInstr++
			}
			fn.Blocks = append(fn.Blocks, b)
			fn.BlockIx[b.Name] = b
		}
		for bb := f.FirstBasicBlock(); !bb.IsNil(); bb = llvm.NextBasicBlock(bb) {
			for ins := bb.FirstInstruction(); !ins.IsNil(); ins = llvm.NextInstruction(ins) {
				c.fill(c.instrs[ins], ins, fn.Name)
				c.values[ins].Ty = c.instrs[ins].Ty
			}
		}
	}
	return c.mod
}

func (c *conv) typ(t llvm.Type) *Type {
	if r, ok := c.types[t]; ok {
		return r
	}
	r := &Type{}
	c.types[t] = r
	switch t.TypeKind() {
	case llvm.VoidTypeKind:
		r.Kind = TVoid
	case llvm.IntegerTypeKind:
		r.Kind, r.Bits = TInt, t.IntTypeWidth()
	case llvm.FloatTypeKind:
		r.Kind, r.Bits = TFloat, 32
	case llvm.DoubleTypeKind:
		r.Kind, r.Bits = TFloat, 64
	case llvm.PointerTypeKind:
		r.Kind, r.Bits = TPtr, 64
	case llvm.LabelTypeKind:
		r.Kind = TLabel
	case llvm.VectorTypeKind:
		// vectors only travel (load / store / argument / result): opaque bits
		e := c.typ(t.ElementType())
		r.Kind, r.Bits = TInt, t.VectorSize()*e.Bits
		r.Vec = fmt.Sprintf("<%d x %s>", t.VectorSize(), e)
	case llvm.StructTypeKind:
		r.Kind = TStruct
		r.Name = t.StructName()
		for _, e := range t.StructElementTypes() {
			r.Elems = append(r.Elems, c.typ(e))
		}
	case llvm.ArrayTypeKind:
		r.Kind = TArray
		r.N = t.ArrayLength()
		r.Elems = []*Type{c.typ(t.ElementType())}
	case llvm.FunctionTypeKind:
		r.Kind = TFunc
		r.Ret = c.typ(t.ReturnType())
		r.VarArg = t.IsFunctionVarArg()
		for _, p := range t.ParamTypes() {
			r.Elems = append(r.Elems, c.typ(p))
		}
		return r
	default:
		r.Kind = TOther
		return r
	}
	if r.Kind != TVoid && r.Kind != TLabel {
		if c.sized(t) {
			r.Size = int(c.td.TypeAllocSize(t))
			r.Align = c.td.ABITypeAlignment(t)
		}
		if r.Kind == TPtr {
			r.Bits = 8 * r.Size
		}
		if r.Kind == TStruct && c.sized(t) {
			for i := range r.Elems {
				r.Offsets = append(r.Offsets, int(c.td.ElementOffset(t, i)))
			}
		}
	}
	return r
}

var abiKinds = []string{"byval", "sret", "signext", "zeroext", "inreg"}

// abiAttrs renders the attributes that change how a value is passed.
func (c *conv) abiAttrs(get func(kind uint) llvm.Attribute) string {
	var out []string
	for _, k := range abiKinds {
		a := get(llvm.AttributeKindID(k))
		if a.IsNil() {
			continue
		}
		if k == "byval" || k == "sret" {
			if t := a.GetTypeValue(); !t.IsNil() {
				ct := c.typ(t)
				out = append(out, fmt.Sprintf("%s(size=%d,align=%d)", k, ct.Size, ct.Align))
				continue
			}
		}
		out = append(out, k)
	}
	return strings.Join(out, " ")
}

func (c *conv) val(v llvm.Value) *IRValue {
	if v.IsNil() {
		return nil
	}
	if r, ok := c.values[v]; ok {
		return r
	}
	r := &IRValue{}
	c.values[v] = r
	if !v.IsABasicBlock().IsNil() {
		r.Kind, r.Name = VBlock, c.blockNm[v.AsBasicBlock()]
		return r
	}
	r.Ty = c.typ(v.Type())
	switch {
	case !v.IsAFunction().IsNil():
		r.Kind, r.Name = VFunc, v.Name()
	case !v.IsAGlobalVariable().IsNil():
		r.Kind, r.Name = VGlobal, v.Name()
		if n, ok := c.gnames[v]; ok {
			r.Name = n
		}
	case !v.IsAGlobalAlias().IsNil():
		r.Kind, r.Name = VGlobal, v.Name()
	case !v.IsAConstantInt().IsNil():
		r.Kind = VConstInt
		if r.Ty.Bits <= 64 {
			r.Int = v.ZExtValue()
		} else {
			r.Kind = VConstExpr
			r.Ins = &Instr{Op: "bigint", Ty: r.Ty, Text: v.String()}
		}
	case !v.IsAConstantFP().IsNil():
		r.Kind = VConstFP
		r.FP, _ = v.DoubleValue()
	case !v.IsAConstantPointerNull().IsNil():
		r.Kind = VNull
	case !v.IsAUndefValue().IsNil():
		r.Kind = VUndef
	case !v.IsAConstantAggregateZero().IsNil():
		r.Kind = VZero
	case !v.IsAConstantStruct().IsNil(), !v.IsAConstantArray().IsNil():
		r.Kind = VConstAgg
		for i := 0; i < v.OperandsCount(); i++ {
			r.Elems = append(r.Elems, c.val(v.Operand(i)))
		}
	case v.IsConstant() && r.Ty.Kind == TArray && v.IsAConstantExpr().IsNil():
		// ConstantDataArray: elements are not operands; read them from the
		// string form (c"..." or [N x iK] [iK a, iK b, ...])
		r.Kind = VConstAgg
		if v.IsConstantString() {
			for _, b := range []byte(v.ConstGetAsString()) {
				r.Elems = append(r.Elems, &IRValue{Kind: VConstInt, Ty: r.Ty.Elems[0], Int: uint64(b)})
			}
		} else {
			r.Elems = parseDataArray(v.String(), r.Ty)
		}
		if len(r.Elems) != r.Ty.N {
			r.Kind = VUndef
			r.Name = "unparsed-data-array:" + v.String()
		}
	case strings.Contains(v.String(), "blockaddress(") && v.IsAConstantExpr().IsNil():
		r.Kind = VBlockAddr
		t := v.String()
		t = t[strings.Index(t, "blockaddress(")+len("blockaddress("):]
		t = strings.TrimSuffix(strings.TrimSpace(t), ")")
		parts := strings.SplitN(t, ", ", 2)
		r.Fn = strings.Trim(strings.TrimPrefix(parts[0], "@"), "\"")
		if len(parts) > 1 {
			r.Name = strings.Trim(strings.TrimPrefix(parts[1], "%"), "\"")
		}
	case !v.IsAConstantExpr().IsNil():
		r.Kind = VConstExpr
		in := &Instr{Ty: r.Ty, Text: v.String()}
		in.Op = opNames[v.Opcode()]
		for i := 0; i < v.OperandsCount(); i++ {
			in.Ops = append(in.Ops, c.val(v.Operand(i)))
		}
		switch in.Op {
		case "getelementptr":
			in.SrcTy = c.typ(v.GEPSourceElementType())
		case "icmp":
			in.Pred = intPreds[v.IntPredicate()]
		}
		r.Ins = in
	case !v.IsAInlineAsm().IsNil():
		r.Kind = VInlineAsm
		r.Name = v.String()
	default:
		if r.Ty.Kind == TOther {
			r.Kind = VMetadata
		} else {
			r.Kind = VUndef
			r.Name = "unknown:" + v.String()
		}
	}
	return r
}

func (c *conv) fill(in *Instr, ins llvm.Value, fname string) {
	op := ins.InstructionOpcode()
	in.Op = opNames[op]
	in.Ty = c.typ(ins.Type())
	txt := ins.String()
	in.Text = strings.TrimSpace(txt)
	if in.Op == "" {
		// fence / cmpxchg / atomicrmw / freeze / fneg etc: take the mnemonic from the text
		t := in.Text
		if i := strings.Index(t, " = "); i >= 0 && strings.HasPrefix(t, "%") {
			t = t[i+3:]
		}
		in.Op = strings.Fields(t)[0]
	}
	n := ins.OperandsCount()
	switch in.Op {
	case "phi":
		for i := 0; i < ins.IncomingCount(); i++ {
			in.Ops = append(in.Ops, c.val(ins.IncomingValue(i)))
			in.Blocks = append(in.Blocks, c.blockNm[ins.IncomingBlock(i)])
		}
		return
	case "br":
		if n == 1 {
			in.Blocks = []string{c.blockNm[ins.Operand(0).AsBasicBlock()]}
		} else {
			in.Ops = []*IRValue{c.val(ins.Operand(0))}
			// operands: cond, false, true
			in.Blocks = []string{c.blockNm[ins.Operand(2).AsBasicBlock()], c.blockNm[ins.Operand(1).AsBasicBlock()]}
		}
		return
	case "switch":
		in.Ops = []*IRValue{c.val(ins.Operand(0))}
		in.Blocks = []string{c.blockNm[ins.Operand(1).AsBasicBlock()]}
		for i := 2; i+1 < n; i += 2 {
			in.Ops = append(in.Ops, c.val(ins.Operand(i)))
			in.Blocks = append(in.Blocks, c.blockNm[ins.Operand(i+1).AsBasicBlock()])
		}
		return
	case "indirectbr":
		in.Ops = []*IRValue{c.val(ins.Operand(0))}
		for i := 1; i < n; i++ {
			in.Blocks = append(in.Blocks, c.blockNm[ins.Operand(i).AsBasicBlock()])
		}
		return
	}
	for i := 0; i < n; i++ {
		in.Ops = append(in.Ops, c.val(ins.Operand(i)))
	}
	switch in.Op {
	case "icmp":
		in.Pred = intPreds[ins.IntPredicate()]
	case "fcmp":
		in.Pred = fpPreds[ins.FloatPredicate()]
	case "getelementptr":
		in.SrcTy = c.typ(ins.GEPSourceElementType())
		in.InBounds = strings.Contains(in.Text, "getelementptr inbounds")
	case "alloca":
		in.SrcTy = c.typ(ins.AllocatedType())
	case "extractvalue", "insertvalue":
		in.Indices = ins.Indices()
	case "call":
		in.FnTy = c.typ(ins.CalledFunctionType())
		for i := 0; i <= len(in.FnTy.Elems); i++ {
			in.Attrs = append(in.Attrs, c.abiAttrs(func(k uint) llvm.Attribute { return ins.GetCallSiteEnumAttribute(i, k) }))
		}
	case "add", "sub", "mul", "shl":
		head := in.Text
		in.NSW = strings.Contains(head, " nsw ")
		in.NUW = strings.Contains(head, " nuw ")
	case "udiv", "sdiv", "lshr", "ashr":
		in.Exact = strings.Contains(in.Text, " exact ")
	case "atomicrmw":
		f := strings.Fields(in.Text[strings.Index(in.Text, "atomicrmw"):])
		if len(f) > 1 {
			in.RMWOp = f[1]
			if f[1] == "volatile" && len(f) > 2 {
				in.RMWOp = f[2]
			}
		}
	}
	if in.Op == "load" || in.Op == "store" || in.Op == "atomicrmw" || in.Op == "cmpxchg" || in.Op == "fence" {
		for _, o := range []string{"seq_cst", "acq_rel", "acquire", "release", "monotonic", "unordered"} {
			if strings.Contains(in.Text, " "+o) {
				in.Atomic = o
				break
			}
		}
	}
}

func (c *conv) sized(t llvm.Type) bool {
	switch t.TypeKind() {
	case llvm.StructTypeKind:
		if t.StructName() != "" && t.StructElementTypesCount() == 0 && strings.Contains(t.String(), "opaque") {
			return false
		}
		for _, e := range t.StructElementTypes() {
			if !c.sized(e) {
				return false
			}
		}
	case llvm.ArrayTypeKind:
		return c.sized(t.ElementType())
	case llvm.FunctionTypeKind, llvm.VoidTypeKind, llvm.LabelTypeKind, llvm.MetadataTypeKind, llvm.TokenTypeKind:
		return false
	}
	return true
}

// parseDataArray parses "[4 x i32] [i32 1, i32 -2, ...]".
func parseDataArray(s string, ty *Type) []*IRValue {
	i := strings.Index(s, "] [")
	if i < 0 {
		return nil
	}
	body := strings.TrimSuffix(strings.TrimSpace(s[i+3:]), "]")
	var out []*IRValue
	for _, p := range strings.Split(body, ", ") {
		f := strings.Fields(p)
		if len(f) != 2 {
			return nil
		}
		et := ty.Elems[0]
		switch et.Kind {
		case TInt:
			var x int64
			var u uint64
			if _, err := fmt.Sscanf(f[1], "%d", &x); err == nil {
				u = uint64(x)
			} else if _, err := fmt.Sscanf(f[1], "%d", &u); err != nil {
				return nil
			}
			if et.Bits < 64 {
				u &= (1 << uint(et.Bits)) - 1
			}
			out = append(out, &IRValue{Kind: VConstInt, Ty: et, Int: u})
		case TFloat:
			var fl float64
			if strings.HasPrefix(f[1], "0x") {
				var bits uint64
				fmt.Sscanf(f[1][2:], "%x", &bits)
				fl = math.Float64frombits(bits)
			} else if _, err := fmt.Sscanf(f[1], "%g", &fl); err != nil {
				return nil
			}
			out = append(out, &IRValue{Kind: VConstFP, Ty: et, FP: fl})
		default:
			return nil
		}
	}
	return out
}
