package llfe

import (
	"fmt"
	"os"
	"sync"

	"github.com/goplus/llgo/internal/build"
	"github.com/goplus/llgo/internal/cabi"
	"github.com/xgo-dev/llvm"
)

var optOnce sync.Once

type stopBuild struct{}

// BuildModules runs llgo's real pipeline (build.Do in gen mode: loader, source
// patches, ssa fix-ups, cl, ssa) on the package in dir and converts every module
// whose package path is wanted.  The build is stopped as soon as all wanted
// modules were seen (the rest of the pipeline needs C tool-chain pieces that are
// not installed here and is irrelevant for the IR of the harness packages).
func BuildModules(dir string, patterns []string, wanted map[string]bool, withText bool, abiMode int) (mods map[string]*Module, err error) {
	optOnce.Do(func() {
		llvm.ParseCommandLineOptions([]string{"symx", "-opaque-pointers"}, "")
	})
	os.Setenv("LLGO_ROOT", repoRoot())
	os.Setenv("LLGO_BUILD_CACHE", "0")
	mods = map[string]*Module{}
	conf := build.NewDefaultConf(build.ModeGen)
	conf.AbiMode = build.AbiMode(0) // the transformation is applied in the hook below when requested
	remaining := len(wanted)
	conf.ModuleHook = func(p build.Package) {
		if !wanted[p.PkgPath] || mods[p.PkgPath] != nil {
			return
		}
		if abiMode > 0 {
			// what build.Do itself does right after the hook: the C-ABI
			// transformation of the module (default mode: all functions)
			tr := cabi.NewTransformer(p.LPkg.Prog, "", "", cabi.Mode(abiMode), true)
			tr.TransformModule(p.LPkg.Path(), p.LPkg.Module())
		}
		mods[p.PkgPath] = Convert(p.LPkg.Module(), p.PkgPath, withText)
		remaining--
		if remaining == 0 {
			panic(stopBuild{})
		}
	}
	cwd, _ := os.Getwd()
	if err := os.Chdir(dir); err != nil {
		return nil, err
	}
	defer os.Chdir(cwd)
	func() {
		defer func() {
			if r := recover(); r != nil {
				if _, ok := r.(stopBuild); ok {
					return
				}
				err = fmt.Errorf("build panicked: %v", r)
			}
		}()
		_, e := build.Do(patterns, conf)
		if e != nil && remaining > 0 {
			err = e
		}
	}()
	if err == nil && remaining > 0 {
		err = fmt.Errorf("build finished without producing %d wanted module(s)", remaining)
	}
	return mods, err
}

func repoRoot() string {
	if r := os.Getenv("VERIF_REPO"); r != "" {
		return r
	}
	return "/repo"
}

// LoadBitcode parses an LLVM bitcode file (e.g. the host C compiler's output)
// into plain data.
func LoadBitcode(path, name string) (*Module, error) {
	optOnce.Do(func() {
		llvm.ParseCommandLineOptions([]string{"symx", "-opaque-pointers"}, "")
	})
	ctx := llvm.NewContext()
	m, err := ctx.ParseBitcodeFile(path)
	if err != nil {
		return nil, err
	}
	return Convert(m, name, false), nil
}
