package llfe

import (
	"fmt"
	"strings"

	"github.com/goplus/llgo/zz_verif_symx/core"
	"github.com/goplus/llgo/zz_verif_symx/smt"
)

const rtPrefix = "github.com/goplus/llgo/runtime/internal/runtime."

func (x *Exec) doCall(fr *frame, in *Instr, ops []lval) lval {
	n := len(in.Ops)
	calleeV := in.Ops[n-1]
	args := ops[:n-1]
	var name string
	var f *Func
	switch calleeV.Kind {
	case VFunc:
		name = calleeV.Name
		f = x.Funcs[name]
	case VInlineAsm:
		x.unsupported("inline asm call: " + in.Text)
	default:
		cv := x.operand(fr, calleeV)
		x.ub("poison-callee", "call through a poison function pointer", cv.poison)
		if onlyUninit(tt(cv)) {
			// the function pointer was read from memory nobody initialised
			x.ub("uninit-callee", "call through a function pointer read from uninitialised memory", smt.True)
			x.M.EndPath("ub")
		}
		addr := x.concretize(tt(cv), "callee")
		if addr < core.NilLimit {
			panic(&GoPanic{Class: "nilptr", Msg: "call of nil function pointer"})
		}
		f = x.addrFn[addr]
		if f == nil {
			x.unsupported(fmt.Sprintf("indirect call to unknown address %#x", addr))
		}
		name = f.Name
	}
	// poison reaching a call argument is an observable sink
	if x.Cfg.PoisonAtSinks {
		for i, a := range args {
			if a.poison != nil && !a.poison.IsFalse() {
				x.ub("poison-arg", fmt.Sprintf("poison passed as argument %d of @%s", i, name), a.poison)
			}
		}
	}
	av := make([]Value, len(args))
	for i, a := range args {
		av[i] = a.v
	}
	if strings.HasPrefix(name, "llvm.") {
		return clean(x.intrinsic(fr, name, in, av))
	}
	switch name {
	case "__sigsetjmp", "sigsetjmp", "_setjmp", "setjmp":
		buf := x.concretize(av[0].(*smt.Term), "jmp_buf")
		x.jmp[buf] = &jmpPoint{fr: fr, blk: fr.curBlk, idx: fr.curIdx, in: in}
		return clean(smt.Const(in.Ty.Bits, 0))
	case "siglongjmp", "longjmp", "_longjmp":
		buf := x.concretize(av[0].(*smt.Term), "jmp_buf")
		panic(&core.LongJmp{Buf: buf, Val: smt.Resize(av[1].(*smt.Term), 32, true)})
	}
	if x.Cfg.CheckCallABI && in.FnTy != nil {
		// the operands must have the types the call's own function type names
		// (the IR verifier rejects anything else; llgo does not run it)
		for i, pt := range in.FnTy.Elems {
			if i < n-1 && in.Ops[i].Ty != nil {
				if a, b := strings.Join(typeLeaves(in.Ops[i].Ty, nil), ","), strings.Join(typeLeaves(pt, nil), ","); a != b {
					x.ub("call-abi."+name, fmt.Sprintf("malformed call of @%s: argument %d has type (%s), the called function type expects (%s)", name, i, a, b), smt.True)
					x.M.EndPath("ub")
				}
			}
		}
	}
	if f != nil && !f.IsDecl && x.Cfg.CheckCallABI && in.FnTy != nil {
		if msg := abiMismatch(in, f); msg != "" {
			id := "call-abi." + name
			if strings.HasPrefix(msg, "REGS:") {
				id, msg = "call-abi.regs-exhausted", msg[5:]
			}
			x.ub(id, fmt.Sprintf("call of @%s with a different signature than its definition: %s", name, msg), smt.True)
			x.M.EndPath("ub")
		}
	}
	if f != nil && !f.IsDecl {
		la := make([]lval, len(args))
		for i, a := range args {
			la[i] = clean(a.v)
		}
		if in.FnTy != nil && sameLeaves(in.FnTy, f.Ty) && sigString(in.FnTy) != sigString(f.Ty) {
			// same convention, different grouping of the scalars into aggregates
			var lv []Value
			for i, a := range la {
				lv = flattenVal(a.v, in.FnTy.Elems[i], lv)
			}
			for i, pt := range f.Ty.Elems {
				la[i].v = buildVal(pt, &lv)
			}
			r := x.call(fr, f, la[:len(f.Ty.Elems)])
			if in.Ty.Kind != TVoid && r.v != nil {
				rl := flattenVal(r.v, f.Ty.Ret, nil)
				r.v = buildVal(in.Ty, &rl)
			}
			return r
		}
		return x.call(fr, f, la)
	}
	if x.Bridge != nil {
		if v, ok := x.Bridge.Call(x, name, f, av, in.Ty); ok {
			return clean(v)
		}
	}
	if v, ok := x.libc(name, in, av); ok {
		return clean(v)
	}
	// observable external call
	x.Externs[name] = true
	x.Trace = append(x.Trace, Event{Name: name, Args: av})
	if in.Ty.Kind == TVoid {
		return lval{}
	}
	if x.ExternValue != nil {
		return clean(x.ExternValue(name, in.Ty))
	}
	return clean(x.undefNamed(in.Ty, "ext."+name))
}

func (x *Exec) undefNamed(t *Type, name string) Value {
	switch t.Kind {
	case TInt:
		if t.Bits == 1 {
			return x.M.Fresh(name, 0)
		}
		return x.M.Fresh(name, t.Bits)
	case TFloat, TPtr:
		return x.M.Fresh(name, t.Bits)
	}
	return x.undef(t)
}

func (x *Exec) copyBound(dst, src, n *smt.Term) int {
	if n.IsConst() {
		return int(n.Uint())
	}
	b := -1
	for _, p := range []*smt.Term{dst, src} {
		for _, t := range x.M.Mem.Resolve(p) {
			if t.A == nil {
				continue
			}
			k := t.A.Size
			if t.Off.IsConst() {
				k -= int(t.Off.Uint())
			}
			if b < 0 || k < b {
				b = k
			}
		}
	}
	if b < 0 {
		b = 0
	}
	return b
}

func (x *Exec) memcpy(dst, src, n *smt.Term, move bool, what string) {
	x.M.Mem.Memcpy(dst, src, n, x.copyBound(dst, src, n), move, &x.hooks, what, func(ov *smt.Term) {
		x.ub("memcpy-overlap", what+" with overlapping source and destination", ov)
	})
}

func (x *Exec) memset(dst, c, n *smt.Term) {
	max := x.copyBound(dst, dst, n)
	b := smt.Extract(c, 7, 0)
	for i := 0; i < max; i++ {
		if !x.M.Branch(smt.Ugt(n, smt.Const(64, uint64(i)))) {
			return
		}
		x.M.Mem.StoreRaw(smt.Add(dst, smt.Const(64, uint64(i))), []*smt.Term{b}, &x.hooks, "memset")
	}
	if !n.IsConst() {
		x.M.Assert(smt.Ule(n, smt.Const(64, uint64(max))), "mem.oob", "memset length exceeds destination", "oob")
	}
}

func (x *Exec) intrinsic(fr *frame, name string, in *Instr, a []Value) Value {
	t := func(i int) *smt.Term { return a[i].(*smt.Term) }
	switch {
	case strings.HasPrefix(name, "llvm.memcpy.") || name == "llvm.memcpy":
		x.memcpy(t(0), t(1), smt.Resize(t(2), 64, false), false, "llvm.memcpy")
		return nil
	case strings.HasPrefix(name, "llvm.memmove.") || name == "llvm.memmove":
		x.memcpy(t(0), t(1), smt.Resize(t(2), 64, false), true, "llvm.memmove")
		return nil
	case strings.HasPrefix(name, "llvm.memset.") || name == "llvm.memset":
		x.memset(t(0), t(1), smt.Resize(t(2), 64, false))
		return nil
	case strings.HasPrefix(name, "llvm.dbg."), strings.HasPrefix(name, "llvm.lifetime."), name == "llvm.donothing":
		return nil
	case strings.HasPrefix(name, "llvm.umul.with.overflow."), strings.HasPrefix(name, "llvm.smul.with.overflow."):
		w := t(0).W
		signed := strings.HasPrefix(name, "llvm.smul")
		if w > 64 {
			x.unsupported(name)
		}
		wa, wb := smt.Resize(t(0), 2*w, signed), smt.Resize(t(1), 2*w, signed)
		full := smt.Mul(wa, wb)
		lo := smt.Extract(full, w-1, 0)
		return Agg{lo, smt.Ne(smt.Resize(lo, 2*w, signed), full)}
	case strings.HasPrefix(name, "llvm.uadd.with.overflow."):
		r := smt.Add(t(0), t(1))
		return Agg{r, smt.Ult(r, t(0))}
	case strings.HasPrefix(name, "llvm.usub.with.overflow."):
		return Agg{smt.Sub(t(0), t(1)), smt.Ult(t(0), t(1))}
	case strings.HasPrefix(name, "llvm.sadd.with.overflow."):
		w := t(0).W
		r := smt.Add(t(0), t(1))
		return Agg{r, smt.Ne(smt.SExt(r, w+1), smt.Add(smt.SExt(t(0), w+1), smt.SExt(t(1), w+1)))}
	case strings.HasPrefix(name, "llvm.ssub.with.overflow."):
		w := t(0).W
		r := smt.Sub(t(0), t(1))
		return Agg{r, smt.Ne(smt.SExt(r, w+1), smt.Sub(smt.SExt(t(0), w+1), smt.SExt(t(1), w+1)))}
	case strings.HasPrefix(name, "llvm.fabs."):
		return smt.And(t(0), smt.Const(t(0).W, ^(uint64(1)<<uint(t(0).W-1))))
	case strings.HasPrefix(name, "llvm.trap"):
		x.ub("trap", "llvm.trap reached", smt.True)
		x.M.EndPath("trap")
	case strings.HasPrefix(name, "llvm.stacksave"), strings.HasPrefix(name, "llvm.frameaddress"), strings.HasPrefix(name, "llvm.returnaddress"):
		return x.M.Mem.Alloc(8, name).Ptr()
	case strings.HasPrefix(name, "llvm.stackrestore"):
		return nil
	}
	x.unsupported("intrinsic " + name)
	return nil
}

// libc models the handful of C functions llgo-emitted IR calls directly.
func (x *Exec) libc(name string, in *Instr, a []Value) (Value, bool) {
	t := func(i int) *smt.Term { return a[i].(*smt.Term) }
	switch name {
	case "memcpy":
		x.memcpy(t(0), t(1), t(2), false, "memcpy")
		return a[0], true
	case "memmove":
		x.memcpy(t(0), t(1), t(2), true, "memmove")
		return a[0], true
	case "memset":
		x.memset(t(0), smt.Resize(t(1), 8, false), t(2))
		return a[0], true
	case "malloc", "GC_malloc":
		n := t(0)
		if !n.IsConst() {
			x.unsupported("malloc with symbolic size")
		}
		return x.M.Mem.AllocSym(int(n.Uint()), name).Ptr(), true
	case "free":
		return nil, true
	}
	return nil, false
}

// onlyUninit: the term is built from nothing but bytes of uninitialised heap
// memory (AllocU without a store).
func onlyUninit(t *smt.Term) bool {
	seen := map[int]bool{}
	n := 0
	var rec func(t *smt.Term) bool
	rec = func(t *smt.Term) bool {
		if seen[t.ID] {
			return true
		}
		seen[t.ID] = true
		switch t.Op {
		case smt.OVar:
			n++
			return strings.HasPrefix(t.Name, "AllocU[")
		case smt.OConcat, smt.OExtract:
			for _, a := range t.Args {
				if !rec(a) {
					return false
				}
			}
			return true
		}
		return false
	}
	return rec(t) && n > 0
}

// abiMismatch compares the call site's function type and ABI attributes with
// the callee's definition (LangRef: calling a function with a mismatched
// signature is undefined behaviour; differing byval/sret/ext attributes make
// caller and callee disagree about registers and stack).
func abiMismatch(in *Instr, f *Func) string {
	// first-class aggregates are passed and returned as the sequence of their
	// scalar leaves (in registers / stack slots assigned one by one), so
	// {double, float} and (double, float) are the same convention
	ct, ft := in.FnTy, f.Ty
	leaves := func(t *Type) string { return strings.Join(typeLeaves(t, nil), ",") }
	attr := func(as []string, i int) string {
		if i < len(as) {
			return as[i]
		}
		return ""
	}
	// byval / sret / inreg change where the value lives: both sides must agree.
	// signext / zeroext are promises of the side that produces the value
	// (caller for arguments, callee for results) which the other side may rely on.
	split := func(a string) (mem string, ext string) {
		for _, f := range strings.Split(a, " ") {
			switch {
			case f == "signext" || f == "zeroext":
				ext = f
			case strings.HasPrefix(f, "byval") || strings.HasPrefix(f, "sret") || f == "inreg" || strings.HasPrefix(f, "align") || strings.HasPrefix(f, "(size"):
				mem += f + " "
			}
		}
		return
	}
	cm, ce := split(attr(in.Attrs, 0))
	fm, fe := split(attr(f.Attrs, 0))
	if a, b := leaves(ct.Ret), leaves(ft.Ret); a != b || cm != fm {
		return fmt.Sprintf("result is (%s %s) at the call, (%s %s) in the definition", a, cm, b, fm)
	}
	_, _ = ce, fe // results: x86-64 callers re-extend narrow results themselves (confirmed natively), so no promise is compared
	var ca, fa []string
	for i, e := range ct.Elems {
		if ft.VarArg && i >= len(ft.Elems) {
			break
		}
		m, _ := split(attr(in.Attrs, i+1))
		ca = append(ca, strings.TrimSpace(leaves(e)+" "+m))
	}
	for i, e := range ft.Elems {
		m, _ := split(attr(f.Attrs, i+1))
		fa = append(fa, strings.TrimSpace(leaves(e)+" "+m))
	}
	if a, b := strings.Join(ca, "; "), strings.Join(fa, "; "); a != b {
		// one recognisable class: the definition takes a register-sized struct
		// (<= 16 bytes) in memory - which the C ABI does only when the argument
		// registers are used up - while the call passes it as scalars
		for i, e := range ft.Elems {
			m, _ := split(attr(f.Attrs, i+1))
			if e.Kind == TPtr && strings.HasPrefix(m, "byval(size=") {
				var sz, al int
				fmt.Sscanf(m, "byval(size=%d,align=%d)", &sz, &al)
				if sz <= 16 && !strings.Contains(strings.Join(ca, "; "), "byval") {
					return "REGS:" + fmt.Sprintf("arguments are (%s) at the call, parameters are (%s): the struct no longer fits the remaining argument registers and must be passed in memory as a whole", a, b)
				}
			}
		}
		return fmt.Sprintf("arguments are (%s) at the call, parameters are (%s)", a, b)
	}
	for i := range ft.Elems {
		_, de := split(attr(f.Attrs, i+1))
		_, cae := split(attr(in.Attrs, i+1))
		if de != "" && de != cae {
			return fmt.Sprintf("parameter %d is %s in the definition (the callee relies on the extension), the call passes it [%s]", i, de, cae)
		}
	}
	return ""
}

func typeLeaves(t *Type, out []string) []string {
	switch {
	case t.Vec != "":
		return append(out, t.Vec)
	case t.Kind == TStruct:
		for _, e := range t.Elems {
			out = typeLeaves(e, out)
		}
	case t.Kind == TArray:
		for i := 0; i < t.N; i++ {
			out = typeLeaves(t.Elems[0], out)
		}
	case t.Kind == TVoid:
	default:
		out = append(out, t.String())
	}
	return out
}

func sameLeaves(a, b *Type) bool {
	if a.VarArg || b.VarArg || len(a.Elems) == 0 && len(b.Elems) == 0 && a.Ret.String() == b.Ret.String() {
		return false
	}
	if strings.Join(typeLeaves(a.Ret, nil), ",") != strings.Join(typeLeaves(b.Ret, nil), ",") {
		return false
	}
	var la, lb []string
	for _, e := range a.Elems {
		la = typeLeaves(e, la)
	}
	for _, e := range b.Elems {
		lb = typeLeaves(e, lb)
	}
	return strings.Join(la, ",") == strings.Join(lb, ",")
}

func flattenVal(v Value, t *Type, out []Value) []Value {
	switch {
	case t.Vec == "" && t.Kind == TStruct:
		a := v.(Agg)
		for i, e := range t.Elems {
			out = flattenVal(a[i], e, out)
		}
	case t.Vec == "" && t.Kind == TArray:
		a := v.(Agg)
		for i := 0; i < t.N; i++ {
			out = flattenVal(a[i], t.Elems[0], out)
		}
	case t.Kind == TVoid:
	default:
		out = append(out, v)
	}
	return out
}

func buildVal(t *Type, lv *[]Value) Value {
	switch {
	case t.Vec == "" && t.Kind == TStruct:
		a := make(Agg, len(t.Elems))
		for i, e := range t.Elems {
			a[i] = buildVal(e, lv)
		}
		return a
	case t.Vec == "" && t.Kind == TArray:
		a := make(Agg, t.N)
		for i := range a {
			a[i] = buildVal(t.Elems[0], lv)
		}
		return a
	case t.Kind == TVoid:
		return nil
	}
	v := (*lv)[0]
	*lv = (*lv)[1:]
	return v
}

func sigString(t *Type) string {
	var ps []string
	for _, e := range t.Elems {
		ps = append(ps, e.String())
	}
	return t.Ret.String() + "(" + strings.Join(ps, ";") + ")"
}
