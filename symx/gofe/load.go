// Package gofe is front end G: symbolic execution of go/ssa with Go
// specification semantics on the core machine.
package gofe

import (
	"fmt"
	"go/ast"
	"go/types"
	"os"
	"strings"

	"golang.org/x/tools/go/packages"
	"golang.org/x/tools/go/ssa"
	"golang.org/x/tools/go/ssa/ssautil"
)

// Program is a loaded and SSA-built set of packages.
type Program struct {
	Prog  *ssa.Program
	Pkgs  []*packages.Package
	SSA   []*ssa.Package
	Main  *ssa.Package // the package containing the harnesses
	Sizes types.Sizes
	Files []string // Go files of the main package (for evidence)
	// LinkTargets maps the remote name of a `//go:linkname local pkg.name`
	// directive that sits on a function WITH a body (a "push" linkname, the way
	// llgo's runtime provides sync.runtime_Semacquire and friends) to that
	// function: a call to the bodiless pkg.name executes the body llgo supplies.
	LinkTargets map[string]*ssa.Function
}

// LoadConfig describes how to load the package under test.
type LoadConfig struct {
	Dir     string            // directory to run `go list` in
	Pattern string            // package pattern
	Tags    []string          // build tags
	Overlay map[string][]byte // virtual files
	Env     []string
}

// Load loads pattern (with deps) and builds SSA for everything.
func Load(lc LoadConfig) (*Program, error) {
	cfg := &packages.Config{
		Mode: packages.NeedName | packages.NeedFiles | packages.NeedCompiledGoFiles | packages.NeedImports |
			packages.NeedDeps | packages.NeedTypes | packages.NeedTypesSizes | packages.NeedSyntax | packages.NeedTypesInfo | packages.NeedModule,
		Dir:     lc.Dir,
		Overlay: lc.Overlay,
		Env:     append(os.Environ(), lc.Env...),
	}
	if len(lc.Tags) > 0 {
		cfg.BuildFlags = []string{"-tags=" + strings.Join(lc.Tags, ",")}
	}
	pkgs, err := packages.Load(cfg, lc.Pattern)
	if err != nil {
		return nil, err
	}
	var errs []string
	packages.Visit(pkgs, nil, func(p *packages.Package) {
		for _, e := range p.Errors {
			errs = append(errs, p.PkgPath+": "+e.Error())
		}
	})
	if len(errs) > 0 {
		if len(errs) > 8 {
			errs = errs[:8]
		}
		return nil, fmt.Errorf("load errors:\n  %s", strings.Join(errs, "\n  "))
	}
	if len(pkgs) == 0 {
		return nil, fmt.Errorf("no packages matched %s", lc.Pattern)
	}
	prog, spkgs := ssautil.AllPackages(pkgs, ssa.InstantiateGenerics|ssa.SanityCheckFunctions*0)
	prog.Build()
	p := &Program{Prog: prog, Pkgs: pkgs, SSA: spkgs, Main: spkgs[0], Sizes: pkgs[0].TypesSizes}
	p.Files = append(p.Files, pkgs[0].CompiledGoFiles...)
	p.LinkTargets = map[string]*ssa.Function{}
	packages.Visit(pkgs, nil, func(pk *packages.Package) {
		if !strings.HasPrefix(pk.PkgPath, "github.com/goplus/llgo/") {
			return
		}
		sp := prog.Package(pk.Types)
		if sp == nil {
			return
		}
		for _, f := range pk.Syntax {
			for _, d := range f.Decls {
				fd, ok := d.(*ast.FuncDecl)
				if !ok || fd.Body == nil || fd.Doc == nil || fd.Recv != nil {
					continue
				}
				for _, c := range fd.Doc.List {
					fs := strings.Fields(c.Text)
					if len(fs) == 3 && fs[0] == "//go:linkname" && fs[1] == fd.Name.Name && strings.Contains(fs[2], ".") {
						if fn := sp.Func(fd.Name.Name); fn != nil {
							p.LinkTargets[fs[2]] = fn
						}
					}
				}
			}
		}
	})
	return p, nil
}

// FuncByName finds a package-level function of the main package.
func (p *Program) FuncByName(name string) *ssa.Function {
	return p.Main.Func(name)
}

// Harnesses lists functions of the main package whose name starts with prefix.
func (p *Program) Harnesses(prefix string) []*ssa.Function {
	var out []*ssa.Function
	for n, m := range p.Main.Members {
		if f, ok := m.(*ssa.Function); ok && strings.HasPrefix(n, prefix) {
			out = append(out, f)
		}
	}
	// deterministic order
	for i := range out {
		for j := i + 1; j < len(out); j++ {
			if out[j].Name() < out[i].Name() {
				out[i], out[j] = out[j], out[i]
			}
		}
	}
	return out
}

// PkgByPath finds an SSA package by import path.
func (p *Program) PkgByPath(path string) *ssa.Package {
	for _, sp := range p.Prog.AllPackages() {
		if sp.Pkg.Path() == path {
			return sp
		}
	}
	return nil
}
