package gofe

import (
	"fmt"
	"go/token"
	"go/types"

	"github.com/goplus/llgo/zz_verif_symx/core"
	"github.com/goplus/llgo/zz_verif_symx/smt"
	"golang.org/x/tools/go/ssa"
)

func c64(v uint64) *smt.Term { return smt.Const(64, v) }

func (x *Exec) evalValue(fr *frame, v ssa.Value) Value {
	switch i := v.(type) {
	case *ssa.Alloc:
		et := i.Type().(*types.Pointer).Elem()
		a := x.M.Mem.Alloc(x.L.Of(et).Size, "alloc:"+i.Comment)
		return a.Ptr()
	case *ssa.BinOp:
		return x.binop(i.Op, i.X.Type(), x.get(fr, i.X), x.get(fr, i.Y), i.Y.Type(), i.Pos())
	case *ssa.UnOp:
		return x.unop(fr, i)
	case *ssa.Call:
		return x.doCall(fr, &i.Call, false)
	case *ssa.ChangeType:
		return x.get(fr, i.X)
	case *ssa.Convert:
		return x.convert(fr, i.X.Type(), i.Type(), x.get(fr, i.X))
	case *ssa.MultiConvert:
		return x.convert(fr, i.X.Type(), i.Type(), x.get(fr, i.X))
	case *ssa.ChangeInterface:
		return x.get(fr, i.X)
	case *ssa.MakeInterface:
		return x.makeIface(i.X.Type(), x.get(fr, i.X))
	case *ssa.TypeAssert:
		return x.typeAssert(fr, i)
	case *ssa.Extract:
		return x.get(fr, i.Tuple).(Agg)[i.Index]
	case *ssa.Field:
		return x.get(fr, i.X).(Agg)[i.Field]
	case *ssa.FieldAddr:
		p := x.get(fr, i.X).(*smt.Term)
		st := x.L.Of(i.X.Type().Underlying().(*types.Pointer).Elem())
		x.nilCheck(p, "field address")
		return smt.Add(p, c64(uint64(st.Fields[i.Field].Off)))
	case *ssa.IndexAddr:
		return x.indexAddr(fr, i)
	case *ssa.Index:
		return x.index(fr, i)
	case *ssa.Slice:
		return x.slice(fr, i)
	case *ssa.SliceToArrayPointer:
		s := x.get(fr, i.X).(Agg)
		n := i.Type().Underlying().(*types.Pointer).Elem().Underlying().(*types.Array).Len()
		if x.M.Branch(smt.Slt(s[1].(*smt.Term), c64(uint64(n)))) {
			x.rtPanic("bounds", "slice to array pointer conversion: slice too short")
		}
		return s[0]
	case *ssa.MakeSlice:
		return x.makeSlice(fr, i)
	case *ssa.MakeClosure:
		fn := i.Fn.(*ssa.Function)
		fs := make([]*core.Type, len(i.Bindings))
		bv := make(Agg, len(i.Bindings))
		for k, b := range i.Bindings {
			fs[k] = x.L.Of(b.Type())
			bv[k] = x.get(fr, b)
		}
		st := core.StructOf("ctx", fs...)
		a := x.M.Mem.Alloc(st.Size, "closure:"+fn.Name())
		x.M.Mem.Store(a.Ptr(), st, bv, &x.hooks, "closure")
		return Agg{c64(x.addrOfFunc(fn)), a.Ptr()}
	case *ssa.MakeMap:
		return x.makeMap(i.Type())
	case *ssa.Lookup:
		return x.lookup(fr, i)
	case *ssa.Range:
		return x.rangeInit(fr, i)
	case *ssa.Next:
		return x.next(fr, i)
	case *ssa.MakeChan:
		return x.makeChan(i, x.get(fr, i.Size))
	case *ssa.Select:
		return x.selectStmt(fr, i)
	}
	x.unsupported(fmt.Sprintf("value instruction %T", v))
	return nil
}

func (x *Exec) nilCheck(p *smt.Term, what string) {
	if p.IsConst() {
		if p.Uint() < core.NilLimit {
			x.rtPanic("nilptr", "nil pointer dereference ("+what+")")
		}
		return
	}
	if _, c := smt.SplitAdd(p); c >= core.NilLimit && p.Op != smt.OIte {
		return // base + symbolic offset inside an allocation
	}
	if x.M.Branch(smt.Eq(p, c64(0))) {
		x.rtPanic("nilptr", "nil pointer dereference ("+what+")")
	}
}

func (x *Exec) unop(fr *frame, i *ssa.UnOp) Value {
	v := x.get(fr, i.X)
	switch i.Op {
	case token.MUL:
		return x.load(v.(*smt.Term), i.Type(), "load at "+x.pos(i.Pos()))
	case token.NOT:
		return smt.BNot(v.(*smt.Term))
	case token.SUB:
		if isFloat(i.Type()) {
			t := v.(*smt.Term)
			return smt.Xor(t, smt.Const(t.W, 1<<uint(t.W-1)))
		}
		if isComplex(i.Type()) {
			a := v.(Agg)
			w := a[0].(*smt.Term).W
			s := smt.Const(w, 1<<uint(w-1))
			return Agg{smt.Xor(a[0].(*smt.Term), s), smt.Xor(a[1].(*smt.Term), s)}
		}
		return smt.Neg(v.(*smt.Term))
	case token.XOR:
		return smt.Not(v.(*smt.Term))
	case token.ARROW:
		rv, ok := x.chanRecvVal(v)
		if i.CommaOk {
			return Agg{rv, ok}
		}
		return rv
	}
	x.unsupported("unop " + i.Op.String())
	return nil
}

// binop implements Go's binary operators.
func (x *Exec) binop(op token.Token, xt types.Type, a, b Value, yt types.Type, pos token.Pos) Value {
	switch {
	case isString(xt):
		return x.stringOp(op, a.(Agg), b.(Agg))
	case isFloat(xt):
		return x.floatOp(op, a.(*smt.Term), b.(*smt.Term))
	case isComplex(xt):
		return x.complexOp(op, a.(Agg), b.(Agg))
	case isIface(xt):
		eq := x.ifaceEq(a.(Agg), b.(Agg))
		if op == token.NEQ {
			return smt.BNot(eq)
		}
		return eq
	}
	switch av := a.(type) {
	case Agg:
		// struct / array / func comparison
		var eq *smt.Term
		if _, isSig := xt.Underlying().(*types.Signature); isSig {
			eq = smt.Eq(av[0].(*smt.Term), b.(Agg)[0].(*smt.Term))
		} else if _, isSlice := xt.Underlying().(*types.Slice); isSlice {
			// slices compare only against nil
			eq = smt.Eq(av[0].(*smt.Term), b.(Agg)[0].(*smt.Term))
		} else {
			eq = x.deepEq(xt, a, b)
		}
		if op == token.NEQ {
			return smt.BNot(eq)
		}
		return eq
	case *smt.Term:
		bv := b.(*smt.Term)
		if av.IsBool() {
			switch op {
			case token.EQL:
				return smt.Eq(av, bv)
			case token.NEQ:
				return smt.BNot(smt.Eq(av, bv))
			case token.AND, token.LAND:
				return smt.BAnd(av, bv)
			case token.OR, token.LOR:
				return smt.BOr(av, bv)
			case token.XOR:
				return smt.BNot(smt.Eq(av, bv))
			case token.AND_NOT:
				return smt.BAnd(av, smt.BNot(bv))
			}
		}
		signed := isSigned(xt)
		switch op {
		case token.ADD:
			return smt.Add(av, bv)
		case token.SUB:
			return smt.Sub(av, bv)
		case token.MUL:
			return smt.Mul(av, bv)
		case token.QUO, token.REM:
			if x.M.Branch(smt.Eq(bv, smt.Const(bv.W, 0))) {
				x.rtPanic("divide", "integer divide by zero")
			}
			if signed {
				if op == token.QUO {
					return smt.SDiv(av, bv)
				}
				return smt.SRem(av, bv)
			}
			if op == token.QUO {
				return smt.UDiv(av, bv)
			}
			return smt.URem(av, bv)
		case token.AND:
			return smt.And(av, bv)
		case token.OR:
			return smt.Or(av, bv)
		case token.XOR:
			return smt.Xor(av, bv)
		case token.AND_NOT:
			return smt.And(av, smt.Not(bv))
		case token.SHL, token.SHR:
			if isSigned(yt) {
				if x.M.Branch(smt.Slt(bv, smt.Const(bv.W, 0))) {
					x.rtPanic("shift", "negative shift amount")
				}
			}
			return shiftGo(op, av, bv, signed)
		case token.EQL:
			return smt.Eq(av, bv)
		case token.NEQ:
			return smt.Ne(av, bv)
		case token.LSS:
			if signed {
				return smt.Slt(av, bv)
			}
			return smt.Ult(av, bv)
		case token.LEQ:
			if signed {
				return smt.Sle(av, bv)
			}
			return smt.Ule(av, bv)
		case token.GTR:
			if signed {
				return smt.Slt(bv, av)
			}
			return smt.Ult(bv, av)
		case token.GEQ:
			if signed {
				return smt.Sle(bv, av)
			}
			return smt.Ule(bv, av)
		}
	}
	x.unsupported(fmt.Sprintf("binop %s on %s", op, xt))
	return nil
}

// shiftGo is Go's shift: count is unsigned (already checked non-negative), a
// count >= width gives 0 or the sign fill.
func shiftGo(op token.Token, a, cnt *smt.Term, signed bool) *smt.Term {
	w := a.W
	big := smt.Uge(cnt, smt.Const(cnt.W, uint64(w)))
	var c *smt.Term
	if cnt.W >= w {
		c = smt.Extract(cnt, w-1, 0)
	} else {
		c = smt.ZExt(cnt, w)
	}
	switch {
	case op == token.SHL:
		return smt.Ite(big, smt.Const(w, 0), smt.Shl(a, c))
	case signed:
		return smt.Ite(big, smt.AShr(a, smt.Const(w, uint64(w-1))), smt.AShr(a, c))
	default:
		return smt.Ite(big, smt.Const(w, 0), smt.LShr(a, c))
	}
}

func (x *Exec) deepEq(t types.Type, a, b Value) *smt.Term {
	switch u := t.Underlying().(type) {
	case *types.Struct:
		r := smt.True
		for i := 0; i < u.NumFields(); i++ {
			r = smt.BAnd(r, x.deepEq(u.Field(i).Type(), a.(Agg)[i], b.(Agg)[i]))
		}
		return r
	case *types.Array:
		r := smt.True
		for i := 0; i < int(u.Len()); i++ {
			r = smt.BAnd(r, x.deepEq(u.Elem(), a.(Agg)[i], b.(Agg)[i]))
		}
		return r
	case *types.Basic:
		if isString(t) {
			return x.stringEq(a.(Agg), b.(Agg))
		}
		if isFloat(t) {
			return x.floatOp(token.EQL, a.(*smt.Term), b.(*smt.Term)).(*smt.Term)
		}
		if isComplex(t) {
			return x.complexOp(token.EQL, a.(Agg), b.(Agg)).(*smt.Term)
		}
		return smt.Eq(a.(*smt.Term), b.(*smt.Term))
	case *types.Interface:
		return x.ifaceEq(a.(Agg), b.(Agg))
	case *types.Pointer, *types.Chan, *types.Map:
		return smt.Eq(a.(*smt.Term), b.(*smt.Term))
	}
	x.unsupported("comparison of " + t.String())
	return nil
}

func (x *Exec) ifaceEq(a, b Agg) *smt.Term {
	at, bt := a[0].(*smt.Term), b[0].(*smt.Term)
	if (at.IsConst() && at.Uint() == 0) || (bt.IsConst() && bt.Uint() == 0) {
		return smt.Eq(at, bt)
	}
	if !x.M.Branch(smt.Eq(at, bt)) {
		return smt.False
	}
	ta := x.concretize(at, "dynamic type")
	if ta == 0 {
		return smt.True
	}
	dt, ok := x.addrType[ta]
	if !ok {
		return smt.Eq(a[1].(*smt.Term), b[1].(*smt.Term))
	}
	if !types.Comparable(dt) {
		x.rtPanic("uncomparable", "comparing uncomparable type "+dt.String())
	}
	return x.deepEq(dt, x.unbox(a, dt), x.unbox(b, dt))
}

// ---- conversions -------------------------------------------------------------

func (x *Exec) convert(fr *frame, from, to types.Type, v Value) Value {
	fu, tu := from.Underlying(), to.Underlying()
	switch {
	case isInteger(from) && isInteger(to):
		return smt.Resize(v.(*smt.Term), x.L.Of(to).Bits, isSigned(from))
	case isPointerLike(from) && isPointerLike(to):
		return v
	case isPointerLike(from) && isInteger(to), isInteger(from) && isPointerLike(to):
		return smt.Resize(v.(*smt.Term), 64, false)
	case isInteger(from) && isString(to):
		return x.callHelper(fr, "zz_stringFromRune", []Value{smt.Resize(v.(*smt.Term), 64, isSigned(from))}, "string(int)")
	case isString(from):
		if s, ok := tu.(*types.Slice); ok {
			if x.L.Of(s.Elem()).Size == 1 {
				return x.stringToBytes(v.(Agg))
			}
			return x.callHelper(fr, "zz_stringToRunes", []Value{v}, "[]rune(string)")
		}
	case isString(to):
		if s, ok := fu.(*types.Slice); ok {
			if x.L.Of(s.Elem()).Size == 1 {
				return x.bytesToString(v.(Agg))
			}
			return x.callHelper(fr, "zz_runesToString", []Value{v}, "string([]rune)")
		}
	case isFloat(from) || isFloat(to):
		return x.floatConv(from, to, v.(*smt.Term))
	case isComplex(from) && isComplex(to):
		a := v.(Agg)
		ft := types.Typ[types.Float64]
		tt := types.Typ[types.Float32]
		if x.L.Of(from).Size == 8 {
			ft, tt = tt, ft
		}
		if x.L.Of(from).Size == x.L.Of(to).Size {
			return v
		}
		return Agg{x.floatConv(ft, tt, a[0].(*smt.Term)), x.floatConv(ft, tt, a[1].(*smt.Term))}
	}
	if _, ok := fu.(*types.Slice); ok {
		if _, ok := tu.(*types.Slice); ok {
			return v
		}
	}
	if types.Identical(fu, tu) {
		return v
	}
	x.unsupported(fmt.Sprintf("conversion %s -> %s", from, to))
	return nil
}

// callHelper calls a helper function that must be declared in the harness
// prelude (plain Go implementing the spec's definition via unicode/utf8).
func (x *Exec) callHelper(fr *frame, name string, args []Value, what string) Value {
	fn := x.P.Main.Func(name)
	if fn == nil {
		x.unsupported(what + " needs prelude helper " + name)
	}
	return x.call(fr, fn, args, nil)
}

// ---- indexing / slicing ----------------------------------------------------

// boundsPanic forks on an out-of-range condition.
func (x *Exec) boundsCheck(bad *smt.Term, what string) {
	if x.M.Branch(bad) {
		x.rtPanic("bounds", what)
	}
}

func idx64(v *smt.Term, t types.Type) *smt.Term {
	return smt.Resize(v, 64, isSigned(t))
}

// idxBad says index (of Go type t) is outside [0,n).
func idxBad(v *smt.Term, t types.Type, n *smt.Term) *smt.Term {
	i := idx64(v, t)
	if v.W == 64 && !isSigned(t) {
		// uint64 index: compare unsigned, n is non-negative
		return smt.Uge(i, n)
	}
	return smt.BOr(smt.Slt(i, c64(0)), smt.Sge(i, n))
}

func (x *Exec) indexAddr(fr *frame, i *ssa.IndexAddr) Value {
	base := x.get(fr, i.X)
	iv := x.get(fr, i.Index).(*smt.Term)
	it := i.Index.Type()
	switch u := i.X.Type().Underlying().(type) {
	case *types.Slice:
		s := base.(Agg)
		x.boundsCheck(idxBad(iv, it, s[1].(*smt.Term)), "index out of range")
		es := x.L.Of(u.Elem()).Size
		return smt.Add(s[0].(*smt.Term), smt.Mul(idx64(iv, it), c64(uint64(es))))
	case *types.Pointer:
		at := u.Elem().Underlying().(*types.Array)
		p := base.(*smt.Term)
		// the array length is static: the bounds check comes first (as gc does),
		// the nil check when the element is actually addressed
		x.boundsCheck(idxBad(iv, it, c64(uint64(at.Len()))), "index out of range")
		x.nilCheck(p, "index of nil array pointer")
		es := x.L.Of(at.Elem()).Size
		return smt.Add(p, smt.Mul(idx64(iv, it), c64(uint64(es))))
	}
	x.unsupported("IndexAddr on " + i.X.Type().String())
	return nil
}

func (x *Exec) index(fr *frame, i *ssa.Index) Value {
	base := x.get(fr, i.X)
	iv := x.get(fr, i.Index).(*smt.Term)
	it := i.Index.Type()
	switch u := i.X.Type().Underlying().(type) {
	case *types.Basic: // string
		s := base.(Agg)
		x.boundsCheck(idxBad(iv, it, s[1].(*smt.Term)), "string index out of range")
		bs := x.M.Mem.LoadRaw(smt.Add(s[0].(*smt.Term), idx64(iv, it)), 1, &x.hooks, "string index")
		return bs[0]
	case *types.Array:
		a := base.(Agg)
		x.boundsCheck(idxBad(iv, it, c64(uint64(u.Len()))), "index out of range")
		if iv.IsConst() {
			return a[int(iv.Uint())]
		}
		var r Value = a[len(a)-1]
		i64 := idx64(iv, it)
		for k := len(a) - 2; k >= 0; k-- {
			r = core.IteValue(smt.Eq(i64, c64(uint64(k))), a[k], r)
		}
		return r
	}
	x.unsupported("Index on " + i.X.Type().String())
	return nil
}

func (x *Exec) slice(fr *frame, i *ssa.Slice) Value {
	base := x.get(fr, i.X)
	opt := func(v ssa.Value) *smt.Term {
		if v == nil {
			return nil
		}
		return idx64(x.get(fr, v).(*smt.Term), v.Type())
	}
	lo, hi, max := opt(i.Low), opt(i.High), opt(i.Max)
	if lo == nil {
		lo = c64(0)
	}
	var ptr, ln, cp *smt.Term
	es := 1
	isStr := false
	switch u := i.X.Type().Underlying().(type) {
	case *types.Slice:
		s := base.(Agg)
		ptr, ln, cp = s[0].(*smt.Term), s[1].(*smt.Term), s[2].(*smt.Term)
		es = x.L.Of(u.Elem()).Size
	case *types.Basic:
		s := base.(Agg)
		ptr, ln = s[0].(*smt.Term), s[1].(*smt.Term)
		cp = ln
		isStr = true
	case *types.Pointer:
		at := u.Elem().Underlying().(*types.Array)
		ptr = base.(*smt.Term)
		x.nilCheck(ptr, "slice of nil array pointer")
		ln = c64(uint64(at.Len()))
		cp = ln
		es = x.L.Of(at.Elem()).Size
	default:
		x.unsupported("Slice on " + i.X.Type().String())
	}
	if hi == nil {
		hi = ln
	}
	if max == nil {
		max = cp
	}
	// 0 <= lo <= hi <= max <= cap
	bad := smt.BOr(smt.Slt(lo, c64(0)), smt.Sgt(lo, hi))
	bad = smt.BOr(bad, smt.Sgt(hi, max))
	bad = smt.BOr(bad, smt.Sgt(max, cp))
	x.boundsCheck(bad, "slice bounds out of range")
	np := smt.Add(ptr, smt.Mul(lo, c64(uint64(es))))
	if isStr {
		return Agg{np, smt.Sub(hi, lo)}
	}
	return Agg{np, smt.Sub(hi, lo), smt.Sub(max, lo)}
}

func (x *Exec) makeSlice(fr *frame, i *ssa.MakeSlice) Value {
	ln := idx64(x.get(fr, i.Len).(*smt.Term), i.Len.Type())
	cp := idx64(x.get(fr, i.Cap).(*smt.Term), i.Cap.Type())
	es := x.L.Of(i.Type().Underlying().(*types.Slice).Elem()).Size
	x.boundsCheck(smt.BOr(smt.Slt(ln, c64(0)), smt.Sgt(ln, cp)), "makeslice: len out of range")
	if es > 0 {
		// implementation limit shared by gc and llgo on 64-bit targets: the
		// allocation must not exceed maxAlloc = 1<<48 bytes
		x.boundsCheck(smt.Ugt(cp, c64((uint64(1)<<48)/uint64(es))), "makeslice: cap out of range")
	}
	n := x.upperBound(cp, "make cap")
	a := x.M.Mem.Alloc(n*es, "makeslice")
	return Agg{a.Ptr(), ln, cp}
}

// upperBound finds a concrete upper bound for a non-negative length term,
// forking as needed (small values only).
func (x *Exec) upperBound(t *smt.Term, what string) int {
	if t.IsConst() {
		if t.Int() < 0 || t.Int() > 1<<20 {
			x.unsupported(fmt.Sprintf("%s: concrete length %d too large", what, t.Int()))
		}
		return int(t.Int())
	}
	// try growing bounds
	for _, k := range []uint64{4, 16, 64, 256, 1024} {
		if !x.M.Feasible(smt.Ugt(t, c64(k))) {
			return int(k)
		}
	}
	// no small bound: stand in with a large block; accesses beyond it are
	// reported inconclusive by the memory model (Alloc.Huge)
	x.hugeNext = true
	return 1 << 16
}
