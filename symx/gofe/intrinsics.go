package gofe

import (
	"go/types"
	"strings"

	"github.com/goplus/llgo/zz_verif_symx/core"
	"github.com/goplus/llgo/zz_verif_symx/smt"
	"golang.org/x/tools/go/ssa"
)

const (
	pClite = "github.com/goplus/llgo/runtime/internal/clite."
	pRT    = "github.com/goplus/llgo/runtime/internal/runtime."
)

func t(v Value) *smt.Term { return v.(*smt.Term) }

// copyBound is the concrete maximum for a symbolic copy length between two
// regions.
func (x *Exec) copyBound(dst, src, n *smt.Term) int {
	if n.IsConst() {
		return int(n.Uint())
	}
	a, b := x.allocBound(dst), x.allocBound(src)
	if b < a || a < 0 {
		a = b
	}
	if a < 0 {
		a = 0
	}
	return a
}

func registerIntrinsics(x *Exec) {
	in := x.Intrinsic
	memcpy := func(move bool) Intrinsic {
		return func(x *Exec, fr *frame, args []Value, _ *ssa.CallCommon) Value {
			dst, src, n := t(args[0]), t(args[1]), t(args[2])
			name := "memcpy"
			if move {
				name = "memmove"
			}
			x.M.Mem.Memcpy(dst, src, n, x.copyBound(dst, src, n), move, &x.hooks, name, func(ov *smt.Term) {
				x.M.Assert(smt.BNot(ov), "ub.memcpy-overlap", "memcpy with overlapping source and destination (C undefined behaviour)", "ub")
			})
			return dst
		}
	}
	in[pClite+"Memcpy"] = memcpy(false)
	in[pClite+"Memmove"] = memcpy(true)
	in[pClite+"Memset"] = func(x *Exec, fr *frame, args []Value, _ *ssa.CallCommon) Value {
		dst, c, n := t(args[0]), t(args[1]), t(args[2])
		max := x.copyBound(dst, dst, n)
		b := smt.Extract(c, 7, 0)
		for i := 0; i < max; i++ {
			if !x.M.Branch(smt.Ugt(n, c64(uint64(i)))) {
				return dst
			}
			x.M.Mem.StoreRaw(smt.Add(dst, c64(uint64(i))), []*smt.Term{b}, &x.hooks, "memset")
		}
		if !n.IsConst() {
			x.M.Assert(smt.Ule(n, c64(uint64(max))), "mem.oob", "memset length exceeds destination allocation", "oob")
		}
		return dst
	}
	in[pClite+"Advance"] = func(x *Exec, fr *frame, args []Value, _ *ssa.CallCommon) Value {
		// llgo.advance(p, n) = p + n*sizeof(*p); bytes for unsafe.Pointer
		scale := uint64(1)
		var nt types.Type
		if f := x.intrinsicFn; f != nil && f.Signature.Params().Len() == 2 {
			if pt, ok := f.Signature.Params().At(0).Type().Underlying().(*types.Pointer); ok {
				scale = uint64(x.L.Of(pt.Elem()).Size)
			}
			nt = f.Signature.Params().At(1).Type()
		}
		n := t(args[1])
		if nt != nil {
			n = smt.Resize(n, 64, isSigned(nt))
		} else {
			n = smt.Resize(n, 64, true)
		}
		return smt.Add(t(args[0]), smt.Mul(n, c64(scale)))
	}
	in[pClite+"Str"] = func(x *Exec, fr *frame, args []Value, _ *ssa.CallCommon) Value {
		// llgo.cstr: a NUL-terminated copy of a constant string
		s := args[0].(Agg)
		l := t(s[1])
		if !l.IsConst() {
			x.unsupported("clite.Str of a non-constant string")
		}
		n := int(l.Uint())
		a := x.M.Mem.Alloc(n+1, "cstr")
		if n > 0 {
			bs := x.M.Mem.LoadRaw(t(s[0]), n, &x.hooks, "cstr")
			copy(a.Bytes, bs)
		}
		return a.Ptr()
	}
	in[pClite+"Strlen"] = func(x *Exec, fr *frame, args []Value, _ *ssa.CallCommon) Value {
		p := t(args[0])
		max := x.allocBound(p)
		for i := 0; i < max; i++ {
			b := x.M.Mem.LoadRaw(smt.Add(p, c64(uint64(i))), 1, &x.hooks, "strlen")[0]
			if x.M.Branch(smt.Eq(b, smt.Const(8, 0))) {
				return c64(uint64(i))
			}
		}
		x.M.Assert(smt.False, "mem.oob", "strlen runs past the end of the allocation", "oob")
		x.M.EndPath("oob")
		return nil
	}
	alloc := func(zero bool) Intrinsic {
		return func(x *Exec, fr *frame, args []Value, _ *ssa.CallCommon) Value {
			n := t(args[0])
			sz := x.upperBound(n, "allocation size")
			huge := x.hugeNext
			x.hugeNext = false
			var a *core.Alloc
			if zero || huge {
				a = x.M.Mem.Alloc(sz, "AllocZ")
			} else {
				a = x.M.Mem.AllocSym(sz, "AllocU")
			}
			a.Huge = huge
			return a.Ptr()
		}
	}
	in[pRT+"AllocZ"] = alloc(true)
	in[pRT+"AllocU"] = alloc(false)
	in[pClite+"Malloc"] = alloc(false)
	in[pClite+"Free"] = func(x *Exec, fr *frame, args []Value, _ *ssa.CallCommon) Value { return nil }

	// --- Go standard library leaves -----------------------------------------
	indexByte := func(x *Exec, fr *frame, args []Value, _ *ssa.CallCommon) Value {
		s := args[0].(Agg)
		p, l := t(s[0]), t(s[1])
		c := t(args[1])
		n := x.lenBound(p, l, 1)
		bs := x.readBytes(p, l, n, "IndexByte")
		res := smt.ConstI(64, -1)
		for i := len(bs) - 1; i >= 0; i-- {
			res = smt.Ite(smt.BAnd(smt.Ugt(l, c64(uint64(i))), smt.Eq(bs[i], c)), c64(uint64(i)), res)
		}
		return res
	}
	in["internal/bytealg.IndexByteString"] = indexByte
	in["internal/bytealg.IndexByte"] = indexByte
	in["internal/bytealg.CountString"] = func(x *Exec, fr *frame, args []Value, _ *ssa.CallCommon) Value {
		s := args[0].(Agg)
		p, l := t(s[0]), t(s[1])
		c := t(args[1])
		n := x.lenBound(p, l, 1)
		bs := x.readBytes(p, l, n, "Count")
		res := c64(0)
		for i := range bs {
			res = smt.Add(res, smt.BoolToBV(smt.BAnd(smt.Ugt(l, c64(uint64(i))), smt.Eq(bs[i], c)), 64))
		}
		return res
	}
	in["internal/bytealg.Count"] = in["internal/bytealg.CountString"]
	// IndexString / Index (assembly in Go's runtime): the first offset at which
	// b occurs in a, or -1
	indexString := func(x *Exec, fr *frame, args []Value, _ *ssa.CallCommon) Value {
		a, b := args[0].(Agg), args[1].(Agg)
		pa, la, pb, lb := t(a[0]), t(a[1]), t(b[0]), t(b[1])
		n, m := x.lenBound(pa, la, 1), x.lenBound(pb, lb, 1)
		as, bs := x.readBytes(pa, la, n, "Index"), x.readBytes(pb, lb, m, "Index")
		res := smt.Const(64, ^uint64(0))
		for i := n; i >= 0; i-- {
			match := smt.Ule(smt.Add(c64(uint64(i)), lb), la)
			for j := 0; j < m && i+j < n; j++ {
				match = smt.BAnd(match, smt.BOr(smt.Ule(lb, c64(uint64(j))), smt.Eq(as[i+j], bs[j])))
			}
			res = smt.Ite(match, c64(uint64(i)), res)
		}
		return res
	}
	in["internal/bytealg.IndexString"] = indexString
	in["internal/bytealg.Index"] = indexString
	in["internal/bytealg.Equal"] = func(x *Exec, fr *frame, args []Value, _ *ssa.CallCommon) Value {
		a, b := args[0].(Agg), args[1].(Agg)
		return x.stringEq(Agg{a[0], a[1]}, Agg{b[0], b[1]})
	}
	in["internal/bytealg.MakeNoZero"] = func(x *Exec, fr *frame, args []Value, _ *ssa.CallCommon) Value {
		n := x.upperBound(t(args[0]), "MakeNoZero")
		a := x.M.Mem.Alloc(n, "MakeNoZero")
		return Agg{a.Ptr(), args[0], args[0]}
	}
	in["internal/stringslite.Index"] = nil
	delete(in, "internal/stringslite.Index")
	noop := func(x *Exec, fr *frame, args []Value, _ *ssa.CallCommon) Value { return nil }
	for _, n := range []string{"(*sync.Mutex).Lock", "(*sync.Mutex).Unlock", "(*sync.RWMutex).Lock", "(*sync.RWMutex).Unlock",
		"(*sync.RWMutex).RLock", "(*sync.RWMutex).RUnlock", "runtime.KeepAlive", "runtime.SetFinalizer", "internal/race.Acquire",
		"internal/race.Release", "internal/race.ReleaseMerge", "internal/race.Disable", "internal/race.Enable",
		"internal/race.ReadRange", "internal/race.WriteRange"} {
		in[n] = noop
	}
	// clock stub: llgo's monotonic clock (clock_gettime behind FFI) returns an
	// arbitrary instant on every call - time is a solver variable, so both the
	// normal and the starvation mode of sync.Mutex are explored
	in["github.com/goplus/llgo/runtime/internal/lib/runtime.runtimeNano"] = func(x *Exec, fr *frame, args []Value, _ *ssa.CallCommon) Value {
		x.Stubs["runtimeNano -> arbitrary instant (clock stub)"] = true
		return x.M.Fresh("nanotime", 64)
	}
	in["os.ReadFile"] = func(x *Exec, fr *frame, args []Value, _ *ssa.CallCommon) Value {
		// environment stub: the file does not exist (harnesses that need file
		// contents pre-populate caches instead)
		x.Stubs["os.ReadFile -> error (no such file)"] = true
		x.events = append(x.events, Event{Kind: "ReadFile", Args: []Value{args[0]}})
		return Agg{Agg{c64(0), c64(0), c64(0)}, x.opaqueIface("os.ReadFile:ENOENT")}
	}
	// ---- pthread keys, TLS, setjmp/longjmp (single thread unless a scheduler runs) ----
	const pPth = "github.com/goplus/llgo/runtime/internal/clite/pthread."
	in["(*"+pPth+"Key).Create"] = func(x *Exec, fr *frame, args []Value, _ *ssa.CallCommon) Value {
		x.keySeq++
		x.M.Mem.Store(t(args[0]), core.TI32, smt.Const(32, uint64(x.keySeq)), &x.hooks, "pthread_key_create")
		return smt.Const(32, 0)
	}
	in["("+pPth+"Key).Get"] = func(x *Exec, fr *frame, args []Value, _ *ssa.CallCommon) Value {
		k := x.concretize(t(args[0]), "pthread key")
		if v, ok := x.tlsCells()[k]; ok {
			return v
		}
		return c64(0)
	}
	in["("+pPth+"Key).Set"] = func(x *Exec, fr *frame, args []Value, _ *ssa.CallCommon) Value {
		k := x.concretize(t(args[0]), "pthread key")
		x.tlsCells()[k] = args[1]
		return smt.Const(32, 0)
	}
	in["("+pPth+"Key).Delete"] = func(x *Exec, fr *frame, args []Value, _ *ssa.CallCommon) Value { return smt.Const(32, 0) }
	in[pPth+"Self"] = func(x *Exec, fr *frame, args []Value, _ *ssa.CallCommon) Value { return c64(uint64(x.threadID() + 1)) }
	in[pPth+"Equal"] = func(x *Exec, fr *frame, args []Value, _ *ssa.CallCommon) Value {
		return smt.BoolToBV(smt.Eq(t(args[0]), t(args[1])), 32)
	}
	in[pClite+"Calloc"] = func(x *Exec, fr *frame, args []Value, _ *ssa.CallCommon) Value {
		n := x.upperBound(smt.Mul(t(args[0]), t(args[1])), "calloc size")
		return x.M.Mem.Alloc(n, "calloc").Ptr()
	}
	in[pClite+"GoDeferData"] = func(x *Exec, fr *frame, args []Value, _ *ssa.CallCommon) Value {
		// llgo.deferData: the current thread's defer chain head
		f := x.P.Main.Func("GetThreadDefer")
		if f == nil {
			x.unsupported("GoDeferData outside the runtime package")
		}
		return x.call(fr, f, nil, nil)
	}
	in[pClite+"Siglongjmp"] = func(x *Exec, fr *frame, args []Value, _ *ssa.CallCommon) Value {
		buf := x.concretize(t(args[0]), "jmp_buf")
		panic(&core.LongJmp{Buf: buf, Val: t(args[1])})
	}
	in["github.com/goplus/llgo/runtime/internal/clite/setjmp.Siglongjmp"] = in[pClite+"Siglongjmp"]
	in["github.com/goplus/llgo/runtime/internal/clite/time.Time"] = func(x *Exec, fr *frame, args []Value, _ *ssa.CallCommon) Value {
		x.Stubs["time.Time -> arbitrary value"] = true
		return x.M.Fresh("time", 64)
	}
	in["github.com/goplus/llgo/runtime/internal/clite/signal.Signal"] = func(x *Exec, fr *frame, args []Value, _ *ssa.CallCommon) Value {
		x.Stubs["signal.Signal -> no effect (faults in the nil region are raised by the memory model)"] = true
		return Agg{c64(0), c64(0)}
	}
	for _, n := range []string{"AddRoots", "RemoveRoots", "Init", "Enable", "Disable", "Gcollect"} {
		in["github.com/goplus/llgo/runtime/internal/clite/bdwgc."+n] = noop
	}
	in[pClite+"Exit"] = func(x *Exec, fr *frame, args []Value, _ *ssa.CallCommon) Value {
		panic(&goPanic{val: x.opaqueIface("exit"), class: "exit", msg: "process exit"})
	}
	in["github.com/goplus/llgo/runtime/internal/clite/bdwgc.Free"] = noop
	in["github.com/goplus/llgo/runtime/internal/clite/debug.PrintStack"] = noop
	in["github.com/goplus/llgo/runtime/internal/clite/debug.StackTrace"] = noop
	in[pRT+"TracePanic"] = func(x *Exec, fr *frame, args []Value, _ *ssa.CallCommon) Value {
		x.Stubs["runtime.TracePanic (message printing of an escaping panic) -> no effect"] = true
		return nil
	}
	in[pRT+"srand"] = noop
	in[pRT+"fastrand"] = func(x *Exec, fr *frame, args []Value, _ *ssa.CallCommon) Value {
		x.Stubs["C.rand -> arbitrary value"] = true
		if len(x.randQueue) > 0 {
			v := x.randQueue[0]
			x.randQueue = x.randQueue[1:]
			return smt.Const(32, v)
		}
		return x.M.Fresh("rand", 32)
	}
	in["fmt.Errorf"] = func(x *Exec, fr *frame, args []Value, _ *ssa.CallCommon) Value {
		x.Stubs["fmt.Errorf -> opaque non-nil error"] = true
		return x.opaqueIface("fmt.Errorf")
	}
	in["fmt.Sprintf"] = func(x *Exec, fr *frame, args []Value, _ *ssa.CallCommon) Value {
		x.Stubs["fmt.Sprintf -> opaque string"] = true
		return x.stringConst("<fmt.Sprintf>")
	}
	in["fmt.Sprint"] = in["fmt.Sprintf"]
	in["fmt.Fprintf"] = func(x *Exec, fr *frame, args []Value, _ *ssa.CallCommon) Value {
		x.Stubs["fmt.Fprintf -> no effect"] = true
		return Agg{c64(0), core.Zero(tIface)}
	}
	in["fmt.Printf"] = in["fmt.Fprintf"]
	in["fmt.Println"] = in["fmt.Fprintf"]
	in["fmt.Fprintln"] = in["fmt.Fprintf"]
}

// isNd reports harness primitives.
func isNd(fn *ssa.Function) bool { return strings.HasPrefix(fn.Name(), "nd_") }
