package gofe

import (
	"fmt"
	"go/types"

	"github.com/goplus/llgo/zz_verif_symx/core"
	"github.com/goplus/llgo/zz_verif_symx/smt"
	"golang.org/x/tools/go/ssa"
)

// constString reads a concrete Go string value.
func (x *Exec) constString(v Value) string {
	a := v.(Agg)
	p, l := a[0].(*smt.Term), a[1].(*smt.Term)
	if !l.IsConst() {
		x.unsupported("nd: non-constant string argument")
	}
	n := int(l.Uint())
	if n == 0 {
		return ""
	}
	bs := x.M.Mem.LoadRaw(p, n, &x.hooks, "nd string")
	out := make([]byte, n)
	for i, b := range bs {
		if !b.IsConst() {
			x.unsupported("nd: non-constant string argument")
		}
		out[i] = byte(b.Uint())
	}
	return string(out)
}

func (x *Exec) constInt(v Value, what string) int {
	t := v.(*smt.Term)
	if !t.IsConst() {
		x.unsupported("nd: non-constant " + what)
	}
	return int(t.Int())
}

// ndCall implements the harness primitives (functions named nd_*).
func (x *Exec) ndCall(fr *frame, fn *ssa.Function, args []Value) Value {
	name := fn.Name()
	res := fn.Signature.Results()
	switch name {
	case "nd_assume":
		x.M.Assume(args[0].(*smt.Term))
		return nil
	case "nd_assert":
		id := x.constString(args[1])
		x.M.Assert(args[0].(*smt.Term), id, id, "assert")
		return nil
	case "nd_reach":
		x.M.Reach(x.constString(args[0]))
		return nil
	case "nd_bool":
		return x.M.Fresh(x.constString(args[0]), 0)
	case "nd_bytes":
		nm := x.constString(args[0])
		n := x.constInt(args[1], "length")
		a := x.M.Mem.AllocSym(n, nm)
		return Agg{a.Ptr(), c64(uint64(n)), c64(uint64(n))}
	case "nd_string":
		nm := x.constString(args[0])
		n := x.constInt(args[1], "max length")
		a := x.M.Mem.AllocSym(n, nm)
		l := x.M.Fresh(nm+".len", 64)
		x.M.Assume(smt.Ule(l, c64(uint64(n))))
		// fork on the length: a concrete length keeps every later copy and
		// comparison at concrete offsets (far fewer and cheaper queries)
		for k := 0; k < n; k++ {
			if x.M.Branch(smt.Eq(l, c64(uint64(k)))) {
				return Agg{a.Ptr(), c64(uint64(k))}
			}
		}
		return Agg{a.Ptr(), c64(uint64(n))}
	case "nd_maporder":
		// the order in which the builtin map model is ranged over is not
		// specified by Go: a harness compares a run in insertion order with a
		// run in reverse order (any dependence on the order shows up as a
		// difference between the two)
		x.Cfg.MapReverse = x.constInt(args[0], "map order") != 0
		x.Stubs["map iteration order: insertion order and its reverse are both explored (nd_maporder)"] = true
		return nil
	case "nd_setrand":
		// the harness chooses the next value of the random source itself (it forks
		// over the values it wants explored): C.rand stays an arbitrary-value stub,
		// the choice just moves from the solver to the harness
		x.randQueue = append(x.randQueue, uint64(x.constInt(args[0], "random value")))
		return nil
	case "nd_native":
		return smt.False
	case "nd_alloc":
		nm := x.constString(args[0])
		n := x.constInt(args[1], "size")
		return x.M.Mem.AllocSym(n, nm).Ptr()
	case "nd_try":
		return x.ndTry(fr, args[0])
	case "nd_hash":
		// an arbitrary but fixed hash function: concrete keys hash by a fixed
		// mixer, symbolic keys get a fresh value constrained to be functional
		k := args[0].(*smt.Term)
		if k.IsConst() {
			h := c64(ndMix(k.Uint()))
			known := false
			for _, p := range x.hashPairs {
				if p[0] == k {
					known = true
				} else if !p[0].IsConst() {
					// an earlier symbolic key that equals this one must have hashed alike
					x.M.Assume(smt.Implies(smt.Eq(p[0], k), smt.Eq(p[1], h)))
				}
			}
			if !known {
				x.hashPairs = append(x.hashPairs, [2]*smt.Term{k, h})
			}
			return h
		}
		h := x.M.Fresh("hash", 64)
		for _, p := range x.hashPairs {
			x.M.Assume(smt.Implies(smt.Eq(k, p[0]), smt.Eq(h, p[1])))
		}
		x.hashPairs = append(x.hashPairs, [2]*smt.Term{k, h})
		x.M.Derived = append(x.M.Derived, core.DerivedEntry{Pattern: "hashof:%d", Key: k, Val: h})
		return h
	case "nd_go":
		if x.sched == nil {
			x.sched = newScheduler(x)
		}
		fv := args[0]
		x.sched.spawnFunc(func() {
			fn, ctx := x.resolveFunc(fv)
			x.callClosure(nil, fn, ctx, nil, false)
		})
		return nil
	case "nd_join":
		if x.sched == nil {
			return smt.False
		}
		return smt.Bool(x.sched.join())
	case "nd_nevents":
		return c64(uint64(len(x.events)))
	case "nd_event_kind":
		i := x.constInt(args[0], "event index")
		return x.stringConst(x.events[i].Kind)
	case "nd_event_str":
		i := x.constInt(args[0], "event index")
		return x.events[i].Args[0]
	case "nd_event_int":
		i := x.constInt(args[0], "event index")
		if len(x.events[i].Args) < 3 {
			return c64(0)
		}
		return x.events[i].Args[2]
	case "nd_event_str2":
		i := x.constInt(args[0], "event index")
		if len(x.events[i].Args) < 2 {
			return x.stringConst("")
		}
		return x.events[i].Args[1]
	case "nd_trace":
		s := name
		for _, a := range args {
			s += " " + fmt.Sprint(a)
		}
		x.M.Trace = append(x.M.Trace, s)
		return nil
	}
	// nd_<inttype>(name) -> fresh symbol of the result type
	if res.Len() == 1 && len(args) >= 1 {
		if b, ok := res.At(0).Type().Underlying().(*types.Basic); ok && b.Info()&(types.IsInteger|types.IsFloat) != 0 || isPointerLike(res.At(0).Type()) {
			w := x.L.Of(res.At(0).Type()).Bits
			return x.M.Fresh(x.constString(args[0]), w)
		}
	}
	x.unsupported("unknown harness primitive " + name)
	return nil
}

// ndTry runs f and reports whether it panicked (Go-level).
func (x *Exec) ndTry(fr *frame, f Value) (res Value) {
	fn, ctx := x.resolveFunc(f)
	res = smt.False
	func() {
		defer func() {
			if r := recover(); r != nil {
				if _, ok := r.(*goPanic); ok {
					res = smt.True
					return
				}
				panic(r)
			}
		}()
		x.callClosure(fr, fn, ctx, nil, false)
	}()
	return res
}

var _ = core.Zero

// ndMix is the fixed hash of concrete keys (also used by the native prelude).
func ndMix(k uint64) uint64 {
	k ^= k >> 33
	k *= 0xff51afd7ed558ccd
	k ^= k >> 33
	k *= 0xc4ceb9fe1a85ec53
	k ^= k >> 33
	return k
}
