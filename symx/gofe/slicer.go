package gofe

import (
	"bytes"
	"fmt"
	"go/ast"
	"go/token"
	"go/types"
	"os"
	"sort"
	"strings"

	"golang.org/x/tools/go/packages"
)

// Slice computes the transitive closure of package-level declarations of the
// main package reachable from the root names and writes them *verbatim* (source
// text of the working tree) into one Go file.  Only import paths are rewritten
// (rewrite map), so function bodies are byte-identical to the code under test.
func Slice(lc LoadConfig, roots []string, rewrite map[string]string, pkgName string, skipBodiless bool) ([]byte, error) {
	cfg := &packages.Config{
		Mode: packages.NeedName | packages.NeedFiles | packages.NeedCompiledGoFiles | packages.NeedImports |
			packages.NeedTypes | packages.NeedTypesSizes | packages.NeedSyntax | packages.NeedTypesInfo,
		Dir:     lc.Dir,
		Overlay: lc.Overlay,
		Env:     append(os.Environ(), lc.Env...),
	}
	if len(lc.Tags) > 0 {
		cfg.BuildFlags = []string{"-tags=" + strings.Join(lc.Tags, ",")}
	}
	pkgs, err := packages.Load(cfg, lc.Pattern)
	if err != nil {
		return nil, err
	}
	p := pkgs[0]
	if len(p.Errors) > 0 {
		return nil, fmt.Errorf("load: %v", p.Errors[0])
	}
	info := p.TypesInfo
	fset := p.Fset
	src := map[string][]byte{}
	text := func(from, to token.Pos) string {
		pf := fset.Position(from)
		b, ok := src[pf.Filename]
		if !ok {
			if ov, ok2 := lc.Overlay[pf.Filename]; ok2 {
				b = ov
			} else {
				b, _ = os.ReadFile(pf.Filename)
			}
			src[pf.Filename] = b
		}
		return string(b[pf.Offset:fset.Position(to).Offset])
	}

	// index package-level declarations
	type declInfo struct {
		node  ast.Node // *ast.FuncDecl or *ast.GenDecl or ast.Spec
		gen   *ast.GenDecl
		start token.Pos
		end   token.Pos
		order int
	}
	decls := map[types.Object]*declInfo{}
	methods := map[*types.TypeName][]*ast.FuncDecl{}
	n := 0
	for _, f := range p.Syntax {
		for _, d := range f.Decls {
			n++
			switch d := d.(type) {
			case *ast.FuncDecl:
				obj := info.Defs[d.Name]
				st := d.Pos()
				if d.Doc != nil {
					st = d.Doc.Pos()
				}
				di := &declInfo{node: d, start: st, end: d.End(), order: n}
				if obj != nil {
					decls[obj] = di
				}
				if d.Recv != nil && len(d.Recv.List) > 0 {
					t := d.Recv.List[0].Type
					if s, ok := t.(*ast.StarExpr); ok {
						t = s.X
					}
					if ix, ok := t.(*ast.IndexExpr); ok {
						t = ix.X
					}
					if id, ok := t.(*ast.Ident); ok {
						if tn, ok := info.Uses[id].(*types.TypeName); ok {
							methods[tn] = append(methods[tn], d)
						}
					}
				}
			case *ast.GenDecl:
				if d.Tok == token.IMPORT {
					continue
				}
				for _, sp := range d.Specs {
					n++
					switch sp := sp.(type) {
					case *ast.TypeSpec:
						st := sp.Pos()
						if sp.Doc != nil {
							st = sp.Doc.Pos()
						}
						decls[info.Defs[sp.Name]] = &declInfo{node: sp, gen: d, start: st, end: sp.End(), order: n}
					case *ast.ValueSpec:
						for _, nm := range sp.Names {
							if obj := info.Defs[nm]; obj != nil {
								if d.Tok == token.CONST {
									// keep whole const blocks (iota)
									st := d.Pos()
									decls[obj] = &declInfo{node: d, gen: d, start: st, end: d.End(), order: n}
								} else {
									st := sp.Pos()
									if sp.Doc != nil {
										st = sp.Doc.Pos()
									}
									decls[obj] = &declInfo{node: sp, gen: d, start: st, end: sp.End(), order: n}
								}
							}
						}
					}
				}
			}
		}
	}

	included := map[ast.Node]*declInfo{}
	imports := map[string]string{} // local name -> path
	var work []ast.Node
	add := func(obj types.Object) {
		if obj == nil || obj.Pkg() != p.Types {
			return
		}
		di := decls[obj]
		if di == nil {
			return
		}
		if _, ok := included[di.node]; ok {
			return
		}
		included[di.node] = di
		work = append(work, di.node)
		if tn, ok := obj.(*types.TypeName); ok {
			for _, m := range methods[tn] {
				switch m.Name.Name {
				case "Error", "RuntimeError", "String":
					if mo := info.Defs[m.Name]; mo != nil {
						if mdi := decls[mo]; mdi != nil {
							if _, ok := included[mdi.node]; !ok {
								included[mdi.node] = mdi
								work = append(work, mdi.node)
							}
						}
					}
				}
			}
		}
	}
	for _, r := range roots {
		obj := p.Types.Scope().Lookup(r)
		if obj == nil {
			return nil, fmt.Errorf("slice root %s not found", r)
		}
		add(obj)
	}
	for len(work) > 0 {
		nd := work[len(work)-1]
		work = work[:len(work)-1]
		ast.Inspect(nd, func(x ast.Node) bool {
			id, ok := x.(*ast.Ident)
			if !ok {
				return true
			}
			obj := info.Uses[id]
			if obj == nil {
				return true
			}
			if pn, ok := obj.(*types.PkgName); ok {
				imports[pn.Name()] = pn.Imported().Path()
				return true
			}
			if obj.Pkg() != p.Types {
				return true
			}
			if obj.Parent() == p.Types.Scope() {
				add(obj)
			} else if fn, ok := obj.(*types.Func); ok {
				// method
				add(fn)
			}
			return true
		})
	}

	var list []*declInfo
	for _, di := range included {
		list = append(list, di)
	}
	sort.Slice(list, func(i, j int) bool { return list[i].order < list[j].order })

	var out bytes.Buffer
	fmt.Fprintf(&out, "// Code generated by symx slice: verbatim declarations from the working tree. DO NOT EDIT.\n\npackage %s\n\n", pkgName)
	var names []string
	for nme := range imports {
		names = append(names, nme)
	}
	sort.Strings(names)
	out.WriteString("import (\n")
	for _, nme := range names {
		path := imports[nme]
		if r, ok := rewrite[path]; ok {
			path = r
		}
		fmt.Fprintf(&out, "\t%s %q\n", nme, path)
	}
	out.WriteString("\t_ \"unsafe\"\n)\n\n")
	for _, di := range list {
		switch nd := di.node.(type) {
		case *ast.FuncDecl:
			if raw := text(di.start, di.end); nd.Body == nil && skipBodiless && (!strings.Contains(raw, "go:linkname") || strings.Contains(raw, " llgo.") || strings.Contains(raw, " C.")) {
				continue // provided by a stand-in file of the replay package
			}
			t := text(di.start, di.end)
			if nd.Body != nil && nd.Doc != nil {
				// a function with a body that is *pushed* to another package's
				// symbol (//go:linkname local pkg.name) would clash with the host
				// Go runtime when linked natively: drop the directive only
				var keep []string
				for _, ln := range strings.Split(t, "\n") {
					if strings.HasPrefix(strings.TrimSpace(ln), "//go:linkname ") {
						continue
					}
					keep = append(keep, ln)
				}
				t = strings.Join(keep, "\n")
			}
			out.WriteString(t)
		case *ast.GenDecl:
			out.WriteString(text(di.start, di.end))
		case *ast.TypeSpec:
			out.WriteString("type " + text(nd.Pos(), nd.End()))
		case *ast.ValueSpec:
			out.WriteString("var " + text(nd.Pos(), nd.End()))
		}
		out.WriteString("\n\n")
	}
	return out.Bytes(), nil
}
