package gofe

import (
	"math"
	"fmt"
	"go/token"
	"go/types"

	"github.com/goplus/llgo/zz_verif_symx/smt"
)

// Floats are carried as IEEE bit patterns (BV32/BV64) and converted to the SMT
// FloatingPoint sort around every operation.

func fpSort(w int) string {
	if w == 32 {
		return "(_ FloatingPoint 8 24)"
	}
	return "(_ FloatingPoint 11 53)"
}

func fpTo(w int) string {
	if w == 32 {
		return "(_ to_fp 8 24)"
	}
	return "(_ to_fp 11 53)"
}

// ToFP reinterprets a bit pattern as a float term.
func ToFP(b *smt.Term) *smt.Term { return smt.Raw(fpTo(b.W), -1, fpSort(b.W), b) }

// FromFP turns a float term back into its bit pattern (z3's fp.to_ieee_bv; NaN
// payloads are unspecified and never compared).
func FromFP(f *smt.Term, w int) *smt.Term { return smt.Raw("fp.to_ieee_bv", w, "", f) }

func FPBin(op string, a, b *smt.Term) *smt.Term {
	if a.IsConst() && b.IsConst() {
		// both operands are concrete: IEEE-754 round-to-nearest-even arithmetic is
		// what the host's float32 / float64 operations compute (NaN payloads are
		// never compared)
		if a.W == 64 {
			x, y := math.Float64frombits(a.Uint()), math.Float64frombits(b.Uint())
			var r float64
			ok := true
			switch op {
			case "fp.add":
				r = x + y
			case "fp.sub":
				r = x - y
			case "fp.mul":
				r = x * y
			case "fp.div":
				r = x / y
			default:
				ok = false
			}
			if ok {
				return smt.Const(64, math.Float64bits(r))
			}
		} else if a.W == 32 {
			x, y := math.Float32frombits(uint32(a.Uint())), math.Float32frombits(uint32(b.Uint()))
			var r float32
			ok := true
			switch op {
			case "fp.add":
				r = x + y
			case "fp.sub":
				r = x - y
			case "fp.mul":
				r = x * y
			case "fp.div":
				r = x / y
			default:
				ok = false
			}
			if ok {
				return smt.Const(32, uint64(math.Float32bits(r)))
			}
		}
	}
	return FromFP(smt.Raw(op+" RNE", -1, fpSort(a.W), ToFP(a), ToFP(b)), a.W)
}

func FPCmp(op string, a, b *smt.Term) *smt.Term {
	if a.IsConst() && b.IsConst() && (a.W == 64 || a.W == 32) {
		var x, y float64
		if a.W == 64 {
			x, y = math.Float64frombits(a.Uint()), math.Float64frombits(b.Uint())
		} else {
			x, y = float64(math.Float32frombits(uint32(a.Uint()))), float64(math.Float32frombits(uint32(b.Uint())))
		}
		switch op {
		case "fp.eq":
			return smt.Bool(x == y)
		case "fp.lt":
			return smt.Bool(x < y)
		case "fp.leq":
			return smt.Bool(x <= y)
		case "fp.gt":
			return smt.Bool(x > y)
		case "fp.geq":
			return smt.Bool(x >= y)
		}
	}
	return smt.Raw(op, 0, "", ToFP(a), ToFP(b))
}

func (x *Exec) floatOp(op token.Token, a, b *smt.Term) Value {
	switch op {
	case token.ADD:
		return FPBin("fp.add", a, b)
	case token.SUB:
		return FPBin("fp.sub", a, b)
	case token.MUL:
		return FPBin("fp.mul", a, b)
	case token.QUO:
		return FPBin("fp.div", a, b)
	case token.EQL:
		return FPCmp("fp.eq", a, b)
	case token.NEQ:
		return smt.BNot(FPCmp("fp.eq", a, b))
	case token.LSS:
		return FPCmp("fp.lt", a, b)
	case token.LEQ:
		return FPCmp("fp.leq", a, b)
	case token.GTR:
		return FPCmp("fp.gt", a, b)
	case token.GEQ:
		return FPCmp("fp.geq", a, b)
	}
	x.unsupported("float op " + op.String())
	return nil
}

func (x *Exec) complexOp(op token.Token, a, b Agg) Value {
	ar, ai, br, bi := a[0].(*smt.Term), a[1].(*smt.Term), b[0].(*smt.Term), b[1].(*smt.Term)
	switch op {
	case token.ADD:
		return Agg{FPBin("fp.add", ar, br), FPBin("fp.add", ai, bi)}
	case token.SUB:
		return Agg{FPBin("fp.sub", ar, br), FPBin("fp.sub", ai, bi)}
	case token.MUL:
		return Agg{FPBin("fp.sub", FPBin("fp.mul", ar, br), FPBin("fp.mul", ai, bi)), FPBin("fp.add", FPBin("fp.mul", ar, bi), FPBin("fp.mul", ai, br))}
	case token.EQL:
		return smt.BAnd(FPCmp("fp.eq", ar, br), FPCmp("fp.eq", ai, bi))
	case token.NEQ:
		return smt.BNot(smt.BAnd(FPCmp("fp.eq", ar, br), FPCmp("fp.eq", ai, bi)))
	}
	x.unsupported("complex op " + op.String())
	return nil
}

func (x *Exec) floatConv(from, to types.Type, v *smt.Term) Value {
	tw := x.L.Of(to).Bits
	switch {
	case isFloat(from) && isFloat(to):
		if v.W == tw {
			return v
		}
		return FromFP(smt.Raw(fpTo(tw)+" RNE", -1, fpSort(tw), ToFP(v)), tw)
	case isInteger(from) && isFloat(to):
		head := fpTo(tw) + " RNE"
		if !isSigned(from) {
			head = fmt.Sprintf("(_ to_fp_unsigned %s RNE", fpTo(tw)[len("(_ to_fp "):])
		}
		return FromFP(smt.Raw(head, -1, fpSort(tw), v), tw)
	case isFloat(from) && isInteger(to):
		if isSigned(to) {
			return smt.Raw(fmt.Sprintf("(_ fp.to_sbv %d) RTZ", tw), tw, "", ToFP(v))
		}
		return smt.Raw(fmt.Sprintf("(_ fp.to_ubv %d) RTZ", tw), tw, "", ToFP(v))
	}
	x.unsupported(fmt.Sprintf("float conversion %s -> %s", from, to))
	return nil
}
