package gofe

import (
	"go/types"

	"github.com/goplus/llgo/zz_verif_symx/core"
	"github.com/goplus/llgo/zz_verif_symx/smt"
	"golang.org/x/tools/go/ssa"
)

// gmap is the builtin association-list model of a Go map (tool-side code only;
// llgo's own map.go is executed for real elsewhere).
type gmap struct {
	kt, vt types.Type
	keys   []Value
	vals   []Value
	live   []*smt.Term
}

func (x *Exec) makeMap(t types.Type) Value {
	mt := t.Underlying().(*types.Map)
	a := x.M.Mem.Alloc(8, "map")
	a.Tag = &gmap{kt: mt.Key(), vt: mt.Elem()}
	return a.Ptr()
}

func (x *Exec) mapOf(v Value) *gmap {
	p := x.concretize(v.(*smt.Term), "map pointer")
	if p == 0 {
		return nil
	}
	a := x.M.Mem.Find(p)
	if a == nil {
		x.unsupported("map pointer outside any allocation")
	}
	m, ok := a.Tag.(*gmap)
	if !ok {
		x.unsupported("pointer is not a builtin map")
	}
	return m
}

func (x *Exec) keyEq(t types.Type, a, b Value) *smt.Term {
	if isFloat(t) || isIface(t) {
		// NaN / dynamic comparison rules: keep it simple and exact
		return x.deepEq(t, a, b)
	}
	return x.deepEq(t, a, b)
}

func (x *Exec) mapUpdate(fr *frame, mv, k, v Value, mt types.Type) {
	m := x.mapOf(mv)
	if m == nil {
		x.rtPanic("nilmap", "assignment to entry in nil map")
	}
	any := smt.False
	for i := range m.keys {
		hit := smt.BAnd(m.live[i], x.keyEq(m.kt, k, m.keys[i]))
		m.vals[i] = core.IteValue(hit, v, m.vals[i])
		any = smt.BOr(any, hit)
	}
	if any.IsTrue() {
		return
	}
	m.keys = append(m.keys, k)
	m.vals = append(m.vals, v)
	m.live = append(m.live, smt.BNot(any))
}

func (x *Exec) lookup(fr *frame, i *ssa.Lookup) Value {
	if isString(i.X.Type()) {
		s := x.get(fr, i.X).(Agg)
		iv := x.get(fr, i.Index).(*smt.Term)
		x.boundsCheck(idxBad(iv, i.Index.Type(), s[1].(*smt.Term)), "string index out of range")
		return x.M.Mem.LoadRaw(smt.Add(s[0].(*smt.Term), idx64(iv, i.Index.Type())), 1, &x.hooks, "string index")[0]
	}
	mt := i.X.Type().Underlying().(*types.Map)
	m := x.mapOf(x.get(fr, i.X))
	k := x.get(fr, i.Index)
	res := core.Zero(x.L.Of(mt.Elem()))
	found := smt.False
	if m != nil {
		for j := range m.keys {
			hit := smt.BAnd(m.live[j], x.keyEq(m.kt, k, m.keys[j]))
			res = core.IteValue(hit, m.vals[j], res)
			found = smt.BOr(found, hit)
		}
	}
	if i.CommaOk {
		return Agg{res, found}
	}
	return res
}

func (x *Exec) mapDelete(mv, k Value, mt types.Type) {
	m := x.mapOf(mv)
	if m == nil {
		return
	}
	for i := range m.keys {
		m.live[i] = smt.BAnd(m.live[i], smt.BNot(x.keyEq(m.kt, k, m.keys[i])))
	}
}

func (x *Exec) mapClear(mv Value) {
	m := x.mapOf(mv)
	if m == nil {
		return
	}
	m.keys, m.vals, m.live = nil, nil, nil
}

func (x *Exec) mapLen(mv Value) Value {
	m := x.mapOf(mv)
	n := c64(0)
	if m == nil {
		return n
	}
	for _, l := range m.live {
		n = smt.Add(n, smt.BoolToBV(l, 64))
	}
	return n
}
