package gofe

import (
	"fmt"

	"github.com/goplus/llgo/zz_verif_symx/core"
	"github.com/goplus/llgo/zz_verif_symx/smt"
	"golang.org/x/tools/go/ssa"
)

// Symbolic scheduler.  Harness threads are `go` statements; exactly one thread
// runs at a time (host goroutines with baton passing).  Scheduling points are
// the synchronisation intrinsics (mutex lock, condition wait/signal, atomics,
// thread start/exit).  At every point the next thread is a solver-level choice
// (Machine.Branch on a fresh variable), so the path exploration enumerates all
// interleavings at that granularity, including spurious condition wake-ups.

type threadKill struct{}

type thread struct {
	id        int
	wake      chan struct{}
	done      bool
	started   bool
	blockedOn uint64 // mutex address the thread waits for (0 = none)
	waitCond  uint64 // condition variable the thread waits on (0 = none)
	signalled bool
	joining   bool
	frame     *frame
	spurious  int
}

type scheduler struct {
	x         *Exec
	threads   []*thread
	cur       int
	owner     map[uint64]int // mutex -> owning thread
	steps     int
	abort     interface{}
	killed    bool
	Spurious  int // spurious wake-ups allowed per wait
	MaxSteps  int
	deadlock  bool
	Switches  int
	Preempt   int // preemption bound (-1 = unbounded)
	preempts  int
}

func newScheduler(x *Exec) *scheduler {
	s := &scheduler{x: x, owner: map[uint64]int{}, MaxSteps: x.Cfg.SchedSteps, Spurious: x.Cfg.Spurious, Preempt: x.Cfg.Preempt}
	if s.MaxSteps == 0 {
		s.MaxSteps = 400
	}
	s.threads = []*thread{{id: 0, wake: make(chan struct{}, 1), started: true}}
	return s
}

func (s *scheduler) current() int { return s.cur }

func (s *scheduler) me() *thread { return s.threads[s.cur] }

// spawn creates a thread for a go statement.
func (s *scheduler) spawn(fr *frame, i *ssa.Go) {
	x := s.x
	cc := &i.Call
	args := make([]Value, len(cc.Args))
	for k, a := range cc.Args {
		args[k] = x.get(fr, a)
	}
	var run func()
	switch f := cc.Value.(type) {
	case *ssa.Function:
		run = func() { x.call(nil, f, args, nil) }
	case *ssa.MakeClosure:
		fn := f.Fn.(*ssa.Function)
		bindings := make([]Value, len(f.Bindings))
		for k, b := range f.Bindings {
			bindings[k] = x.get(fr, b)
		}
		run = func() { x.call(nil, fn, args, bindings) }
	default:
		fv := x.get(fr, cc.Value)
		run = func() {
			fn, ctx := x.resolveFunc(fv)
			x.callClosure(nil, fn, ctx, args, false)
		}
	}
	s.spawnFunc(run)
}

func (s *scheduler) spawnFunc(run func()) {
	t := &thread{id: len(s.threads), wake: make(chan struct{}, 1)}
	s.threads = append(s.threads, t)
	go func() {
		<-t.wake
		defer func() {
			r := recover()
			if _, ok := r.(threadKill); ok {
				return
			}
			if r != nil {
				// path end, internal error or uncaught Go panic: abort the path
				if s.abort == nil {
					s.abort = r
				}
				s.killAll(t)
				return
			}
		}()
		if s.killed {
			return
		}
		t.started = true
		run()
		t.done = true
		s.switchAway(t)
	}()
}

// killAll wakes every blocked thread so that it unwinds; thread 0 re-raises abort.
func (s *scheduler) killAll(except *thread) {
	s.killed = true
	for _, t := range s.threads {
		if t != except && !t.done {
			select {
			case t.wake <- struct{}{}:
			default:
			}
		}
	}
}

func (s *scheduler) checkKilled(t *thread) {
	if s.killed {
		if t.id == 0 {
			if s.abort != nil {
				a := s.abort
				s.abort = nil
				panic(a)
			}
			return
		}
		panic(threadKill{})
	}
}

// enabled lists the threads that can take a step (and whether taking it
// consumes a spurious wake-up).
func (s *scheduler) enabled() (ids []int, spur []bool) {
	for _, t := range s.threads {
		if t.done {
			continue
		}
		switch {
		case t.joining:
			all := true
			for _, o := range s.threads {
				if o != t && !o.done {
					all = false
				}
			}
			if all {
				ids, spur = append(ids, t.id), append(spur, false)
			}
		case t.waitCond != 0:
			if t.signalled {
				ids, spur = append(ids, t.id), append(spur, false)
			} else if t.spurious < s.Spurious {
				ids, spur = append(ids, t.id), append(spur, true)
			}
		case t.blockedOn != 0:
			if _, held := s.owner[t.blockedOn]; !held {
				ids, spur = append(ids, t.id), append(spur, false)
			}
		default:
			ids, spur = append(ids, t.id), append(spur, false)
		}
	}
	return
}

// choose picks the next thread among the enabled ones (solver-level choice).
// Switching away from a thread that could itself continue is a preemption;
// at most Preempt of them are explored per path (context bound, stated in the
// evidence) — switches at blocking points are free.
func (s *scheduler) choose() (int, bool) {
	ids, spur := s.enabled()
	if len(ids) == 0 {
		return -1, false
	}
	if s.Preempt >= 0 {
		for k, id := range ids {
			if id == s.cur && !spur[k] && s.preempts >= s.Preempt {
				return id, false // budget used up: the running thread continues
			}
		}
	}
	curEnabled := false
	for k, id := range ids {
		if id == s.cur && !spur[k] {
			curEnabled = true
		}
	}
	pick := func() (int, bool) {
		for k := 0; k < len(ids)-1; k++ {
			if s.x.M.Branch(s.x.M.Fresh("sched", 0)) {
				return ids[k], spur[k]
			}
		}
		return ids[len(ids)-1], spur[len(ids)-1]
	}
	id, sp := pick()
	if curEnabled && id != s.cur {
		s.preempts++
	}
	return id, sp
}

func (s *scheduler) chooseOld() (int, bool) {
	ids, spur := s.enabled()
	if len(ids) == 0 {
		return -1, false
	}
	for k := 0; k < len(ids)-1; k++ {
		if s.x.M.Branch(s.x.M.Fresh("sched", 0)) {
			return ids[k], spur[k]
		}
	}
	return ids[len(ids)-1], spur[len(ids)-1]
}

// yield is a scheduling point of the running thread (which stays enabled or
// has just updated its blocking status).
func (s *scheduler) yield() {
	t := s.me()
	s.steps++
	if s.steps > s.MaxSteps {
		s.x.M.Inconclusive("unwind.sched", fmt.Sprintf("more than %d scheduling points on one path", s.MaxSteps))
		s.x.M.EndPath("unwind")
	}
	s.switchAway(t)
}

// switchAway hands the baton to a chosen enabled thread (possibly t itself).
func (s *scheduler) switchAway(t *thread) {
	t.frame = s.x.curFrame
	next, sp := s.choose()
	if next < 0 {
		// nobody can run: deadlock.  The main thread observes it.
		s.deadlock = true
		main := s.threads[0]
		if main.done {
			return
		}
		next = 0
		main.joining, main.blockedOn, main.waitCond = false, 0, 0
	}
	nt := s.threads[next]
	if sp {
		nt.spurious++
	}
	if nt.waitCond != 0 {
		nt.waitCond, nt.signalled = 0, false
	}
	s.Switches++
	if nt == t {
		return
	}
	s.cur = next
	nt.wake <- struct{}{}
	if t.done {
		return
	}
	<-t.wake
	s.checkKilled(t)
	s.x.curFrame = t.frame
}

// ---- primitives -----------------------------------------------------------------

func (s *scheduler) lock(m uint64) {
	t := s.me()
	for {
		t.blockedOn = m
		s.yield()
		if _, held := s.owner[m]; !held {
			s.owner[m] = t.id
			t.blockedOn = 0
			return
		}
	}
}

func (s *scheduler) unlock(m uint64) {
	t := s.me()
	if o, held := s.owner[m]; !held || o != t.id {
		s.x.M.Assert(smt.False, "sched.unlock", "unlock of a mutex that the thread does not hold", "assert")
	}
	delete(s.owner, m)
}

func (s *scheduler) wait(c, m uint64) {
	t := s.me()
	s.unlock(m)
	t.waitCond, t.signalled = c, false
	s.yield()
	// woken (signal or spurious): re-acquire the mutex
	s.lock(m)
}

func (s *scheduler) signal(c uint64, all bool) {
	var ws []*thread
	for _, t := range s.threads {
		if !t.done && t.waitCond == c && !t.signalled {
			ws = append(ws, t)
		}
	}
	if len(ws) == 0 {
		return
	}
	if all {
		for _, w := range ws {
			w.signalled = true
		}
		return
	}
	// pthread_cond_signal wakes at least one waiter: which one is a choice
	for k := 0; k < len(ws)-1; k++ {
		if s.x.M.Branch(s.x.M.Fresh("sigpick", 0)) {
			ws[k].signalled = true
			return
		}
	}
	ws[len(ws)-1].signalled = true
}

// join blocks the main thread until every other thread is done; returns true
// when the program deadlocked instead.
func (s *scheduler) join() bool {
	t := s.me()
	t.joining = true
	s.yield()
	t.joining = false
	return s.deadlock
}

// finish is called when the harness function returns.
func (s *scheduler) finish() {
	s.killAll(s.threads[0])
}

func (x *Exec) schedOrNil() *scheduler { return x.sched }

func registerSchedIntrinsics(x *Exec) {
	in := x.Intrinsic
	const pSync = "github.com/goplus/llgo/runtime/internal/clite/pthread/sync."
	addr := func(x *Exec, v Value, what string) uint64 { return x.concretize(v.(*smt.Term), what) }
	i32 := func(v uint64) Value { return smt.Const(32, v) }
	in["(*"+pSync+"Mutex).Init"] = func(x *Exec, fr *frame, a []Value, _ *ssa.CallCommon) Value { return i32(0) }
	in["(*"+pSync+"Mutex).Destroy"] = func(x *Exec, fr *frame, a []Value, _ *ssa.CallCommon) Value { return nil }
	in["(*"+pSync+"Mutex).Lock"] = func(x *Exec, fr *frame, a []Value, _ *ssa.CallCommon) Value {
		if x.sched != nil {
			x.sched.lock(addr(x, a[0], "mutex"))
		}
		return nil
	}
	in["(*"+pSync+"Mutex).Unlock"] = func(x *Exec, fr *frame, a []Value, _ *ssa.CallCommon) Value {
		if x.sched != nil {
			x.sched.unlock(addr(x, a[0], "mutex"))
		}
		return nil
	}
	in["(*"+pSync+"Cond).Init"] = func(x *Exec, fr *frame, a []Value, _ *ssa.CallCommon) Value { return i32(0) }
	in["(*"+pSync+"Cond).Destroy"] = func(x *Exec, fr *frame, a []Value, _ *ssa.CallCommon) Value { return nil }
	in["(*"+pSync+"Cond).Wait"] = func(x *Exec, fr *frame, a []Value, _ *ssa.CallCommon) Value {
		if x.sched == nil {
			// single thread waiting on a condition: nobody can ever signal
			x.sched = newScheduler(x)
		}
		x.sched.wait(addr(x, a[0], "cond"), addr(x, a[1], "mutex"))
		return i32(0)
	}
	in["(*"+pSync+"Cond).Signal"] = func(x *Exec, fr *frame, a []Value, _ *ssa.CallCommon) Value {
		if x.sched != nil {
			x.sched.signal(addr(x, a[0], "cond"), false)
		}
		return i32(0)
	}
	in["(*"+pSync+"Cond).Broadcast"] = func(x *Exec, fr *frame, a []Value, _ *ssa.CallCommon) Value {
		if x.sched != nil {
			x.sched.signal(addr(x, a[0], "cond"), true)
		}
		return i32(0)
	}
	in["(*"+pSync+"Once).Do"] = func(x *Exec, fr *frame, a []Value, _ *ssa.CallCommon) Value {
		// pthread_once: run f exactly once per control block
		o := addr(x, a[0], "once")
		if x.onceDone == nil {
			x.onceDone = map[uint64]bool{}
		}
		if !x.onceDone[o] {
			x.onceDone[o] = true
			fn, ctx := x.resolveFunc(a[1])
			x.callClosure(fr, fn, ctx, nil, false)
		}
		return i32(0)
	}
}

var _ = core.Zero
