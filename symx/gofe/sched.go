package gofe

import "golang.org/x/tools/go/ssa"

// scheduler is the symbolic scheduler (see sched_impl.go once present).
type scheduler struct{ x *Exec }

func newScheduler(x *Exec) *scheduler { return &scheduler{x: x} }

func (s *scheduler) spawn(fr *frame, i *ssa.Go) { s.x.unsupported("go statement (scheduler not built yet)") }
func (s *scheduler) finish()                  {}

func (s *scheduler) current() int { return 0 }
