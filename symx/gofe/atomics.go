package gofe

import (
	"go/types"
	"strings"

	"github.com/goplus/llgo/zz_verif_symx/core"
	"github.com/goplus/llgo/zz_verif_symx/smt"
	"golang.org/x/tools/go/ssa"
)

// Atomic operations are indivisible and are scheduling points.

func (x *Exec) atomicPoint() {
	if x.sched != nil {
		x.sched.yield()
	}
}

// atomicIntrinsic recognises the three families by package path and name:
// Go's sync/atomic, llgo's lib/sync/atomic replacement and clite/sync/atomic.
func (x *Exec) atomicIntrinsic(fn *ssa.Function, args []Value) (Value, bool) {
	f := fn
	if o := fn.Origin(); o != nil {
		f = o
	}
	if f.Pkg == nil || f.Signature.Recv() != nil {
		return nil, false
	}
	path := f.Pkg.Pkg.Path()
	std := path == "sync/atomic" || path == "github.com/goplus/llgo/runtime/internal/lib/sync/atomic" || path == "internal/runtime/atomic"
	clite := path == "github.com/goplus/llgo/runtime/internal/clite/sync/atomic"
	if !std && !clite {
		return nil, false
	}
	name := f.Name()
	if fn.Signature.Params().Len() == 0 {
		return nil, false
	}
	pt, ok := fn.Signature.Params().At(0).Type().Underlying().(*types.Pointer)
	if !ok {
		return nil, false
	}
	et := pt.Elem()
	ct := x.L.Of(et)
	if ct.Kind != core.KInt {
		return nil, false
	}
	p := args[0].(*smt.Term)
	load := func() *smt.Term { return x.M.Mem.Load(p, ct, &x.hooks, "atomic "+name).(*smt.Term) }
	store := func(v *smt.Term) { x.M.Mem.Store(p, ct, v, &x.hooks, "atomic "+name) }
	arg := func(i int) *smt.Term { return args[i].(*smt.Term) }
	op := name
	if std {
		for _, pre := range []string{"CompareAndSwap", "Swap", "Add", "Load", "Store", "And", "Or"} {
			if strings.HasPrefix(name, pre) {
				op = pre
				break
			}
		}
	}
	// A second scheduling point AFTER the operation lets other threads run
	// between an atomic access and the plain (unsynchronised) code that
	// follows it - the window in which "check atomically, then act" races live.
	defer x.atomicPoint()
	switch op {
	case "Load":
		x.atomicPoint()
		return load(), true
	case "Store":
		x.atomicPoint()
		store(arg(1))
		return nil, true
	case "Swap", "Exchange":
		x.atomicPoint()
		old := load()
		store(arg(1))
		return old, true
	case "CompareAndSwap":
		x.atomicPoint()
		old := load()
		eq := smt.Eq(old, arg(1))
		store(smt.Ite(eq, arg(2), old))
		return eq, true
	case "CompareAndExchange":
		x.atomicPoint()
		old := load()
		eq := smt.Eq(old, arg(1))
		store(smt.Ite(eq, arg(2), old))
		return Agg{old, eq}, true
	case "Add", "Sub", "And", "Or", "Xor":
		x.atomicPoint()
		old := load()
		var nv *smt.Term
		switch op {
		case "Add":
			nv = smt.Add(old, arg(1))
		case "Sub":
			nv = smt.Sub(old, arg(1))
		case "And":
			nv = smt.And(old, arg(1))
		case "Or":
			nv = smt.Or(old, arg(1))
		default:
			nv = smt.Xor(old, arg(1))
		}
		store(nv)
		if std && op == "Add" {
			return nv, true // sync/atomic.AddX returns the new value
		}
		return old, true // atomicrmw returns the old value
	}
	return nil, false
}
