package gofe

import (
	"fmt"
	"go/constant"
	"go/token"
	"go/types"
	"math"
	"os"
	"strings"

	"github.com/goplus/llgo/zz_verif_symx/core"
	"github.com/goplus/llgo/zz_verif_symx/smt"
	"golang.org/x/tools/go/ssa"
	"golang.org/x/tools/go/types/typeutil"
)

type Value = core.Value
type Agg = core.Agg

// goPanic is a Go-level panic travelling up the host stack.
type goPanic struct {
	val   Value  // interface value {type, data}
	class string // "" for user panics; runtime error class otherwise
	msg   string
}

type deferred struct {
	fn     Value // func value Agg{fn,ctx} or nil when builtin/static
	static *ssa.Function
	bi     *ssa.Builtin
	args   []Value
	instr  *ssa.Defer
	iface  *ssa.CallCommon // invoke mode
}

type frame struct {
	fn        *ssa.Function
	caller    *frame
	env       map[ssa.Value]Value
	block     *ssa.BasicBlock
	prev      *ssa.BasicBlock
	defers    []deferred
	result    Value
	panicking bool
	panic     *goPanic
	loops     map[ssa.Instruction]int
	depth     int
	deferDepth int // >0 while running as a deferred call of caller
	isDeferred bool
}

// Config tunes the executor.
type Config struct {
	Unwind     int  // symbolic loop iterations per loop per frame
	MaxDepth   int  // recursion depth
	MaxSteps   int  // instructions per path
	MapReverse bool // iterate builtin maps in reverse insertion order
	RunInit    map[string]bool
	SchedSteps int // scheduling points per path (bound)
	Spurious   int // spurious condition wake-ups allowed per wait
	Preempt    int // preemption bound of the scheduler (-1 unbounded)
	SkipUserInits bool // do not run user-written init() functions (environment set-up)
	RecursionFails string // obligation id violated when the recursion bound is exceeded
}

type Exec struct {
	P   *Program
	M   *core.Machine
	L   *Layout
	Cfg Config

	// per-path state
	globals   map[*ssa.Global]*core.Alloc
	strConst  map[string]*core.Alloc
	funcAddr  map[*ssa.Function]uint64
	addrFunc  map[uint64]*ssa.Function
	typeAddr  typeutil.Map // types.Type -> uint64
	addrType  map[uint64]types.Type
	inited    map[*ssa.Package]bool
	steps     int
	hooks     core.AccessHooks
	curFrame  *frame
	Intrinsic map[string]Intrinsic
	Stubs     map[string]bool // names of stubs actually used (evidence)
	randQueue []uint64        // values the harness chose for the next fastrand() calls (nd_setrand)
	Encoded   map[string]bool // functions whose bodies were executed (evidence)
	sched     *scheduler
	nextIsDeferred bool
	hugeNext  bool
	keySeq    int
	hashPairs [][2]*smt.Term
	onceDone  map[uint64]bool
	tls       map[int]map[uint64]Value
	intrinsicFn *ssa.Function // the (instantiated) function an intrinsic stands for
	initStores map[*ssa.Package]map[*ssa.Global]bool
	initOrder  []*ssa.Package // packages whose init was triggered lazily (cumulative over paths)
	initSeen   map[*ssa.Package]bool
	snap       *pathSnap
	snapLen    int
	initDepth  int
	events    []Event
	Extern    func(x *Exec, name string, fn *ssa.Function, args []Value) (Value, bool)
	// Foreign resolves calls through function addresses this executor does not
	// own (code of the other front end)
	Foreign func(fp uint64, ctx *smt.Term, args []Value) (Value, bool)
}

// Event is an observable effect recorded by stubs (file creation etc.).
type Event struct {
	Kind string
	Args []Value
}

type Intrinsic func(x *Exec, fr *frame, args []Value, call *ssa.CallCommon) Value

func NewExec(p *Program, m *core.Machine) *Exec {
	x := &Exec{P: p, M: m, L: &Layout{PtrBits: 64}, Stubs: map[string]bool{}, Encoded: map[string]bool{}}
	x.Cfg = Config{Unwind: 8, MaxDepth: 60, MaxSteps: 2000000, Preempt: -1}
	x.Intrinsic = map[string]Intrinsic{}
	registerIntrinsics(x)
	registerSchedIntrinsics(x)
	x.hooks.OnWild = func(addr *smt.Term, what string) {
		if os.Getenv("SYMX_DEBUG") != "" {
			for f := x.curFrame; f != nil; f = f.caller {
				fmt.Fprintf(os.Stderr, "  wild in %s\n", f.fn)
			}
		}
	}
	x.hooks.OnNil = func(addr *smt.Term) { x.rtPanic("nilptr", "invalid memory address or nil pointer dereference") }
	return x
}

type pathSnap struct {
	mem      *core.MemSnap
	globals  map[*ssa.Global]uint64
	strConst map[string]uint64
	funcAddr map[*ssa.Function]uint64
	types    []types.Type
	typeAddr []uint64
	inited   map[*ssa.Package]bool
}

// startPath resets per-path state and, when package initialisers were needed
// on earlier paths, starts from a memory snapshot taken after running them
// (they are concrete and deterministic, so this is only a cache).
func (x *Exec) startPath() {
	x.resetPath()
	if len(x.initOrder) == 0 {
		return
	}
	if x.snap == nil || x.snapLen != len(x.initOrder) {
		for _, p := range x.initOrder {
			if !x.inited[p] {
				x.ensureInit(p, nil)
			}
		}
		sn := &pathSnap{mem: x.M.Mem.Snapshot(), globals: map[*ssa.Global]uint64{}, strConst: map[string]uint64{}, funcAddr: map[*ssa.Function]uint64{}, inited: map[*ssa.Package]bool{}}
		for g, a := range x.globals {
			sn.globals[g] = a.Base
		}
		for k, a := range x.strConst {
			sn.strConst[k] = a.Base
		}
		for f, a := range x.funcAddr {
			sn.funcAddr[f] = a
		}
		for a, t := range x.addrType {
			sn.types = append(sn.types, t)
			sn.typeAddr = append(sn.typeAddr, a)
		}
		for p, v := range x.inited {
			sn.inited[p] = v
		}
		x.snap, x.snapLen = sn, len(x.initOrder)
		x.resetPath()
	}
	sn := x.snap
	m := x.M.Mem.Restore(sn.mem, func(t interface{}) interface{} {
		if gm, ok := t.(*gmap); ok {
			c := *gm
			c.keys = append([]Value(nil), gm.keys...)
			c.vals = append([]Value(nil), gm.vals...)
			c.live = append([]*smt.Term(nil), gm.live...)
			return &c
		}
		return t
	})
	for g, b := range sn.globals {
		x.globals[g] = m[b]
	}
	for k, b := range sn.strConst {
		x.strConst[k] = m[b]
	}
	for f, a := range sn.funcAddr {
		x.funcAddr[f] = a
		x.addrFunc[a] = f
	}
	for i, t := range sn.types {
		x.typeAddr.Set(t, sn.typeAddr[i])
		x.addrType[sn.typeAddr[i]] = t
	}
	for p, v := range sn.inited {
		x.inited[p] = v
	}
}

// tlsCells is the thread-specific storage of the running thread.
func (x *Exec) tlsCells() map[uint64]Value {
	if x.tls == nil {
		x.tls = map[int]map[uint64]Value{}
	}
	id := x.threadID()
	if x.tls[id] == nil {
		x.tls[id] = map[uint64]Value{}
	}
	return x.tls[id]
}

func (x *Exec) threadID() int {
	if x.sched != nil {
		return x.sched.current()
	}
	return 0
}

// resetPath clears per-path state; call at the start of every explored path.
func (x *Exec) resetPath() {
	x.randQueue = nil
	x.keySeq = 0
	x.hashPairs = nil
	x.tls = nil
	x.onceDone = nil
	if os.Getenv("SYMX_DEBUG") != "" {
		x.M.Mem.OnOOB = func(what string) {
			for f := x.curFrame; f != nil; f = f.caller {
				fmt.Fprintf(os.Stderr, "  oob in %s\n", f.fn)
			}
		}
	}
	x.globals = map[*ssa.Global]*core.Alloc{}
	x.strConst = map[string]*core.Alloc{}
	x.funcAddr = map[*ssa.Function]uint64{}
	x.addrFunc = map[uint64]*ssa.Function{}
	x.typeAddr = typeutil.Map{}
	x.addrType = map[uint64]types.Type{}
	x.inited = map[*ssa.Package]bool{}
	x.steps = 0
	x.curFrame = nil
	x.events = nil
	x.sched = nil
}

// RunHarness explores every path of the parameterless function fn.
func (x *Exec) RunHarness(fn *ssa.Function) {
	x.M.Explore(func() {
		x.startPath()
		defer func() {
			if r := recover(); r != nil {
				if gp, ok := r.(*goPanic); ok {
					// an uncaught Go panic in a harness is a failure of the harness obligation
					x.M.Assert(smt.False, fn.Name()+".uncaught-panic", "uncaught panic: "+gp.describe(), "assert")
					return
				}
				panic(r)
			}
		}()
		defer func() {
			if x.sched != nil {
				x.sched.finish()
			}
		}()
		x.call(nil, fn, nil, nil)
	})
}

func (p *goPanic) describe() string {
	if p.class != "" {
		return "runtime error (" + p.class + "): " + p.msg
	}
	return "user panic " + p.msg
}

func (x *Exec) unsupported(what string) {
	if x.curFrame != nil {
		what += " [in " + x.curFrame.fn.String()
		if x.curFrame.caller != nil {
			what += " <- " + x.curFrame.caller.fn.String()
		}
		what += "]"
	}
	x.M.Inconclusive("unsupported", what)
	if os.Getenv("SYMX_DEBUG") != "" {
		fmt.Fprintf(os.Stderr, "unsupported: %s\n", what)
	}
	x.M.EndPath("unsupported")
}

// rtPanic raises a Go run-time panic.
func (x *Exec) rtPanic(class, msg string) {
	panic(&goPanic{val: x.opaqueIface("runtime.Error:" + class), class: class, msg: msg})
}

// opaqueIface builds a non-nil interface value with an opaque dynamic type.
func (x *Exec) opaqueIface(tag string) Value {
	a := x.M.Mem.Alloc(8, "opaque:"+tag)
	a.Tag = tag
	return Agg{a.Ptr(), a.Ptr()}
}

// ---- calls ---------------------------------------------------------------

func fullName(fn *ssa.Function) string {
	if o := fn.Origin(); o != nil {
		fn = o
	}
	if fn.Pkg != nil && fn.Signature.Recv() == nil {
		return fn.Pkg.Pkg.Path() + "." + fn.Name()
	}
	return fn.String()
}

func (x *Exec) call(caller *frame, fn *ssa.Function, args []Value, bindings []Value) Value {
	name := fullName(fn)
	isDef := x.nextIsDeferred
	x.nextIsDeferred = false
	if in, ok := x.Intrinsic[name]; ok {
		x.intrinsicFn = fn
		return in(x, caller, args, nil)
	}
	if len(fn.Blocks) == 0 || fn.Origin() != nil {
		if v, ok := x.atomicIntrinsic(fn, args); ok {
			return v
		}
	}
	if fn.Name() == "init" && fn.Pkg != nil && fn.Signature.Recv() == nil && fn.Synthetic != "" {
		// package initialiser: only pure allow-listed packages are initialised
		path := fn.Pkg.Pkg.Path()
		if !initAllowed[path] && !x.Cfg.RunInit[path] && fn.Pkg != x.P.Main {
			return nil
		}
		x.inited[fn.Pkg] = true
	}
	if strings.HasPrefix(fn.Name(), "nd_") {
		return x.ndCall(caller, fn, args)
	}
	if x.Cfg.SkipUserInits && strings.HasPrefix(fn.Name(), "init#") && fn.Signature.Recv() == nil {
		x.Stubs["user init functions of "+fn.Pkg.Pkg.Path()+" skipped (environment set-up)"] = true
		return nil
	}
	if len(fn.Blocks) == 0 {
		if t := x.P.LinkTargets[name]; t != nil && t != fn {
			x.Stubs["linkname: "+name+" is provided by "+fullName(t)] = true
			return x.call(caller, t, args, nil)
		}
	}
	if x.Extern != nil && len(fn.Blocks) == 0 {
		if v, ok := x.Extern(x, name, fn, args); ok {
			return v
		}
	}
	if len(fn.Blocks) == 0 {
		// try synthetic / external
		x.unsupported("call to function without body: " + name)
	}
	x.Encoded[name] = true
	fr := &frame{fn: fn, caller: caller, env: map[ssa.Value]Value{}, loops: map[ssa.Instruction]int{}, isDeferred: isDef}
	if caller != nil {
		fr.depth = caller.depth + 1
	}
	if fr.depth > x.Cfg.MaxDepth && os.Getenv("SYMX_DEBUG") != "" {
		for f := fr; f != nil; f = f.caller {
			arg := ""
			for _, p := range f.fn.Params {
				if isString(p.Type()) {
					func() {
						defer func() { recover() }()
						arg += " " + fmt.Sprint(f.env[p].(Agg)[0], f.env[p].(Agg)[1])
						arg += " " + x.constString(f.env[p])
					}()
				}
			}
			fmt.Fprintf(os.Stderr, "  depth %d: %s%s\n", f.depth, f.fn, arg)
		}
	}
	if fr.depth > x.Cfg.MaxDepth && x.Cfg.RecursionFails != "" {
		x.M.Assert(smt.False, x.Cfg.RecursionFails, fmt.Sprintf("recursion deeper than %d in %s: does not terminate within the bound", x.Cfg.MaxDepth, name), "crash")
		x.M.EndPath("unwind")
	}
	if fr.depth > x.Cfg.MaxDepth {
		x.M.Inconclusive("unwind.recursion", fmt.Sprintf("recursion depth %d exceeded in %s", x.Cfg.MaxDepth, name))
		x.M.EndPath("unwind")
	}
	for i, p := range fn.Params {
		fr.env[p] = args[i]
	}
	for i, fv := range fn.FreeVars {
		fr.env[fv] = bindings[i]
	}
	fr.block = fn.Blocks[0]
	saved := x.curFrame
	x.curFrame = fr
	defer func() { x.curFrame = saved }()
	x.runFrame(fr)
	return fr.result
}

func (x *Exec) runFrame(fr *frame) {
	defer func() {
		if fr.block == nil {
			return // normal return
		}
		r := recover()
		gp, ok := r.(*goPanic)
		if !ok {
			panic(r) // pathEnd or internal error: propagate untouched
		}
		fr.panicking = true
		fr.panic = gp
		x.runDefers(fr)
		// recovered: continue at the Recover block
		fr.block = fr.fn.Recover
		if fr.block == nil {
			fr.result = x.zeroResults(fr.fn)
			return
		}
		x.runFrame(fr)
	}()
	for fr.block != nil {
		x.runBlock(fr)
	}
}

func (x *Exec) zeroResults(fn *ssa.Function) Value {
	res := fn.Signature.Results()
	switch res.Len() {
	case 0:
		return nil
	case 1:
		return core.Zero(x.L.Of(res.At(0).Type()))
	}
	return core.Zero(x.L.Of(res))
}

// runDefers runs the deferred calls of fr in LIFO order.  If fr is panicking
// and no deferred call recovers, the panic is re-raised.
func (x *Exec) runDefers(fr *frame) {
	for len(fr.defers) > 0 {
		d := fr.defers[len(fr.defers)-1]
		fr.defers = fr.defers[:len(fr.defers)-1]
		func() {
			defer func() {
				if r := recover(); r != nil {
					gp, ok := r.(*goPanic)
					if !ok {
						panic(r)
					}
					// a panic in a deferred call replaces the current one
					fr.panicking = true
					fr.panic = gp
				}
			}()
			x.callDeferred(fr, d)
		}()
	}
	if fr.panicking {
		panic(fr.panic)
	}
}

func (x *Exec) callDeferred(fr *frame, d deferred) {
	switch {
	case d.bi != nil:
		x.builtin(fr, d.bi, d.args, nil, true)
	case d.static != nil:
		x.callMarked(fr, d.static, d.args, nil)
	case d.iface != nil:
		x.invoke(fr, d.iface, d.args[0], d.args[1:], true)
	default:
		fn, ctx := x.resolveFunc(d.fn)
		x.callClosure(fr, fn, ctx, d.args, true)
	}
}

// callMarked calls fn as a deferred call of fr (so recover() works in it).
func (x *Exec) callMarked(fr *frame, fn *ssa.Function, args []Value, bindings []Value) Value {
	// The callee frame is created inside call; mark via a side channel.
	x.nextIsDeferred = true
	return x.call(fr, fn, args, bindings)
}

// ---- blocks & instructions --------------------------------------------------

func (x *Exec) runBlock(fr *frame) {
	b := fr.block
	for _, ins := range b.Instrs {
		x.steps++
		if x.steps > x.Cfg.MaxSteps {
			x.M.Inconclusive("unwind.steps", "step limit reached")
			x.M.EndPath("steps")
		}
		switch i := ins.(type) {
		case *ssa.Phi:
			for k, p := range b.Preds {
				if p == fr.prev {
					fr.env[i] = x.get(fr, i.Edges[k])
					break
				}
			}
		case *ssa.Jump:
			fr.prev, fr.block = b, b.Succs[0]
			return
		case *ssa.If:
			c := x.get(fr, i.Cond).(*smt.Term)
			var taken bool
			if c.IsBoolConst() {
				taken = c.IsTrue()
			} else {
				fr.loops[i]++
				if fr.loops[i] > x.Cfg.Unwind {
					x.M.Inconclusive("unwind.loop", fmt.Sprintf("unwinding bound %d exceeded at %s in %s", x.Cfg.Unwind, x.pos(i.Pos()), fr.fn.Name()))
					x.M.EndPath("unwind")
				}
				taken = x.M.Branch(c)
			}
			fr.prev = b
			if taken {
				fr.block = b.Succs[0]
			} else {
				fr.block = b.Succs[1]
			}
			return
		case *ssa.Return:
			switch len(i.Results) {
			case 0:
				fr.result = nil
			case 1:
				fr.result = x.get(fr, i.Results[0])
			default:
				a := make(Agg, len(i.Results))
				for k, r := range i.Results {
					a[k] = x.get(fr, r)
				}
				fr.result = a
			}
			fr.block = nil
			return
		case *ssa.Panic:
			v := x.get(fr, i.X)
			panic(&goPanic{val: v, msg: x.pos(i.Pos())})
		case *ssa.RunDefers:
			x.runDefers(fr)
		case *ssa.Defer:
			x.doDefer(fr, i)
		case *ssa.Go:
			x.doGo(fr, i)
		case *ssa.Store:
			x.store(x.get(fr, i.Addr).(*smt.Term), i.Val.Type(), x.get(fr, i.Val), x.pos(i.Pos()))
		case *ssa.MapUpdate:
			x.mapUpdate(fr, x.get(fr, i.Map), x.get(fr, i.Key), x.get(fr, i.Value), i.Map.Type())
		case *ssa.Send:
			x.chanSend(fr, i)
		case *ssa.DebugRef:
		case ssa.Value:
			fr.env[i] = x.evalValue(fr, i)
		default:
			x.unsupported(fmt.Sprintf("instruction %T", ins))
		}
	}
	panic("block without terminator")
}

func (x *Exec) pos(p token.Pos) string {
	if !p.IsValid() {
		return "?"
	}
	ps := x.P.Prog.Fset.Position(p)
	f := ps.Filename
	if i := strings.LastIndex(f, "/"); i >= 0 {
		f = f[i+1:]
	}
	return fmt.Sprintf("%s:%d", f, ps.Line)
}

func (x *Exec) load(p *smt.Term, t types.Type, what string) Value {
	return x.M.Mem.Load(p, x.L.Of(t), &x.hooks, what)
}

func (x *Exec) store(p *smt.Term, t types.Type, v Value, what string) {
	x.M.Mem.Store(p, x.L.Of(t), v, &x.hooks, what)
}

// get evaluates an operand.
func (x *Exec) get(fr *frame, v ssa.Value) Value {
	switch c := v.(type) {
	case *ssa.Const:
		return x.constValue(c)
	case *ssa.Global:
		return x.globalAddr(c)
	case *ssa.Function:
		return Agg{smt.Const(64, x.addrOfFunc(c)), smt.Const(64, 0)}
	case *ssa.Builtin:
		x.unsupported("builtin as value")
	}
	r, ok := fr.env[v]
	if !ok {
		panic(fmt.Sprintf("gofe: no value for %s (%T) in %s", v.Name(), v, fr.fn))
	}
	return r
}

func (x *Exec) addrOfFunc(f *ssa.Function) uint64 {
	if a, ok := x.funcAddr[f]; ok {
		return a
	}
	al := x.M.Mem.Alloc(1, "func:"+f.String())
	al.ReadOnly = true
	al.Tag = f
	x.funcAddr[f] = al.Base
	x.addrFunc[al.Base] = f
	return al.Base
}

func (x *Exec) globalAddr(g *ssa.Global) *smt.Term {
	if a, ok := x.globals[g]; ok {
		return a.Ptr()
	}
	et := g.Type().(*types.Pointer).Elem()
	a := x.M.Mem.Alloc(x.L.Of(et).Size, "global:"+g.String())
	x.globals[g] = a
	if g.Pkg != nil {
		x.ensureInit(g.Pkg, g)
	}
	return a.Ptr()
}

// ensureInit runs the package initialiser of allow-listed pure packages the
// first time one of their globals is touched.
func (x *Exec) ensureInit(p *ssa.Package, g *ssa.Global) {
	if _, done := x.inited[p]; done {
		return
	}
	x.inited[p] = true
	path := p.Pkg.Path()
	if !initAllowed[path] && !x.Cfg.RunInit[path] && p != x.P.Main {
		// Without running init we can only trust zero-initialised globals.
		x.inited[p] = false
		if g != nil && x.hasInitStore(p, g) {
			x.unsupported("global " + g.String() + " has an initialiser but the init of package " + path + " is not run (not in the pure allow-list)")
		}
		return
	}
	init := p.Func("init")
	if init == nil || len(init.Blocks) == 0 {
		return
	}
	if x.initDepth == 0 {
		if x.initSeen == nil {
			x.initSeen = map[*ssa.Package]bool{}
		}
		if !x.initSeen[p] {
			x.initSeen[p] = true
			x.initOrder = append(x.initOrder, p)
		}
	}
	x.initDepth++
	defer func() { x.initDepth-- }()
	// the init function stores true to init$guard first and then calls the
	// dependency inits; those are handled recursively by the same mechanism
	// (each call to another package's init is intercepted).
	x.call(nil, init, nil, nil)
}

// hasInitStore reports whether the package initialiser stores to global g.
func (x *Exec) hasInitStore(p *ssa.Package, g *ssa.Global) bool {
	if x.initStores == nil {
		x.initStores = map[*ssa.Package]map[*ssa.Global]bool{}
	}
	set, ok := x.initStores[p]
	if !ok {
		set = map[*ssa.Global]bool{}
		if init := p.Func("init"); init != nil {
			for _, b := range init.Blocks {
				for _, ins := range b.Instrs {
					if st, ok := ins.(*ssa.Store); ok {
						a := st.Addr
						for {
							switch v := a.(type) {
							case *ssa.FieldAddr:
								a = v.X
								continue
							case *ssa.IndexAddr:
								a = v.X
								continue
							}
							break
						}
						if gg, ok := a.(*ssa.Global); ok {
							set[gg] = true
						}
					}
				}
			}
		}
		x.initStores[p] = set
	}
	return set[g]
}

var initAllowed = map[string]bool{
	"unicode": true, "unicode/utf8": true, "strings": true, "errors": false, "path": true, "path/filepath": true,
	"internal/filepathlite": true, "io/fs": true, "strconv": true, "io": true, "bytes": true, "sort": true, "slices": true,
	"internal/bytealg": true, "math/bits": true, "unicode/utf16": true, "internal/stringslite": true, "internal/oserror": true,
	"syscall": false, "os": false, "go/token": true,
}

func (x *Exec) constValue(c *ssa.Const) Value {
	t := c.Type()
	if c.Value == nil {
		return core.Zero(x.L.Of(t))
	}
	switch u := t.Underlying().(type) {
	case *types.Basic:
		switch {
		case u.Info()&types.IsBoolean != 0:
			return smt.Bool(constant.BoolVal(c.Value))
		case u.Info()&types.IsInteger != 0:
			w := x.L.Of(t).Bits
			if i, ok := constant.Int64Val(constant.ToInt(c.Value)); ok {
				return smt.Const(w, uint64(i))
			}
			ui, _ := constant.Uint64Val(constant.ToInt(c.Value))
			return smt.Const(w, ui)
		case u.Info()&types.IsString != 0:
			return x.stringConst(constant.StringVal(c.Value))
		case u.Info()&types.IsFloat != 0:
			f, _ := constant.Float64Val(c.Value)
			if x.L.Of(t).Bits == 32 {
				return smt.Const(32, uint64(math.Float32bits(float32(f))))
			}
			return smt.Const(64, math.Float64bits(f))
		case u.Info()&types.IsComplex != 0:
			re, _ := constant.Float64Val(constant.Real(c.Value))
			im, _ := constant.Float64Val(constant.Imag(c.Value))
			if u.Kind() == types.Complex64 {
				return Agg{smt.Const(32, uint64(math.Float32bits(float32(re)))), smt.Const(32, uint64(math.Float32bits(float32(im))))}
			}
			return Agg{smt.Const(64, math.Float64bits(re)), smt.Const(64, math.Float64bits(im))}
		case u.Kind() == types.UnsafePointer:
			return smt.Const(64, 0)
		}
	}
	x.unsupported(fmt.Sprintf("constant %s of type %s", c, t))
	return nil
}

func (x *Exec) stringConst(s string) Value {
	if s == "" {
		return Agg{smt.Const(64, 0), smt.Const(64, 0)}
	}
	a, ok := x.strConst[s]
	if !ok {
		a = x.M.Mem.AllocRaw(len(s), "str")
		for i := 0; i < len(s); i++ {
			a.Bytes[i] = smt.Const(8, uint64(s[i]))
		}
		a.ReadOnly = true
		x.strConst[s] = a
	}
	return Agg{a.Ptr(), smt.Const(64, uint64(len(s)))}
}

// resolveFunc turns a func value into a concrete function and context.
func (x *Exec) resolveFunc(v Value) (*ssa.Function, *smt.Term) {
	a := v.(Agg)
	fp := x.concretize(a[0].(*smt.Term), "function pointer")
	if fp == 0 {
		x.rtPanic("nilptr", "call of nil func value")
	}
	f, ok := x.addrFunc[fp]
	if !ok {
		x.unsupported(fmt.Sprintf("call through unknown function address %#x", fp))
	}
	return f, a[1].(*smt.Term)
}

// concretize forks until the term is a constant.
func (x *Exec) concretize(t *smt.Term, what string) uint64 {
	for depth := 0; depth < 64; depth++ {
		if t.IsConst() {
			return t.Uint()
		}
		if t.Op == smt.OIte {
			if x.M.Branch(t.Args[0]) {
				t = t.Args[1]
			} else {
				t = t.Args[2]
			}
			continue
		}
		break
	}
	x.unsupported("cannot concretize " + what + ": " + t.String())
	return 0
}

func (x *Exec) callClosure(fr *frame, fn *ssa.Function, ctx *smt.Term, args []Value, asDeferred bool) Value {
	var bindings []Value
	if len(fn.FreeVars) > 0 {
		// ctx points at a struct of the free variables
		fs := make([]*core.Type, len(fn.FreeVars))
		for i, fv := range fn.FreeVars {
			fs[i] = x.L.Of(fv.Type())
		}
		st := core.StructOf("ctx", fs...)
		bv := x.M.Mem.Load(ctx, st, &x.hooks, "closure context").(Agg)
		bindings = []Value(bv)
	}
	if asDeferred {
		return x.callMarked(fr, fn, args, bindings)
	}
	return x.call(fr, fn, args, bindings)
}

func (x *Exec) doCall(fr *frame, cc *ssa.CallCommon, asDeferred bool) Value {
	args := make([]Value, len(cc.Args))
	for i, a := range cc.Args {
		args[i] = x.get(fr, a)
	}
	if cc.IsInvoke() {
		return x.invoke(fr, cc, x.get(fr, cc.Value), args, asDeferred)
	}
	switch f := cc.Value.(type) {
	case *ssa.Builtin:
		return x.builtin(fr, f, args, cc, false)
	case *ssa.Function:
		if asDeferred {
			return x.callMarked(fr, f, args, nil)
		}
		return x.call(fr, f, args, nil)
	case *ssa.MakeClosure:
		fn := f.Fn.(*ssa.Function)
		bindings := make([]Value, len(f.Bindings))
		for i, b := range f.Bindings {
			bindings[i] = x.get(fr, b)
		}
		if asDeferred {
			return x.callMarked(fr, fn, args, bindings)
		}
		return x.call(fr, fn, args, bindings)
	}
	fv := x.get(fr, cc.Value)
	if x.Foreign != nil && !asDeferred {
		a := fv.(Agg)
		if fp := a[0].(*smt.Term); fp.IsConst() && fp.Uint() != 0 {
			if _, own := x.addrFunc[fp.Uint()]; !own {
				if r, ok := x.Foreign(fp.Uint(), a[1].(*smt.Term), args); ok {
					return r
				}
			}
		}
	}
	fn, ctx := x.resolveFunc(fv)
	return x.callClosure(fr, fn, ctx, args, asDeferred)
}

func (x *Exec) doDefer(fr *frame, i *ssa.Defer) {
	cc := &i.Call
	d := deferred{instr: i}
	for _, a := range cc.Args {
		d.args = append(d.args, x.get(fr, a))
	}
	if cc.IsInvoke() {
		d.iface = cc
		d.args = append([]Value{x.get(fr, cc.Value)}, d.args...)
	} else {
		switch f := cc.Value.(type) {
		case *ssa.Builtin:
			d.bi = f
		case *ssa.Function:
			d.static = f
		default:
			d.fn = x.get(fr, cc.Value)
		}
	}
	fr.defers = append(fr.defers, d)
}

// invoke performs a dynamic method call on an interface value.
func (x *Exec) invoke(fr *frame, cc *ssa.CallCommon, recv Value, args []Value, asDeferred bool) Value {
	iv := recv.(Agg)
	ta := x.concretize(iv[0].(*smt.Term), "dynamic type")
	if ta == 0 {
		x.rtPanic("nilptr", "method call on nil interface")
	}
	dt, ok := x.addrType[ta]
	if !ok {
		if al := x.M.Mem.Find(ta); al != nil {
			if tag, ok := al.Tag.(string); ok {
				return x.opaqueMethod(fr, tag, cc, iv)
			}
		}
		x.unsupported(fmt.Sprintf("invoke %s on unknown dynamic type", cc.Method.Name()))
	}
	sel := x.P.Prog.MethodSets.MethodSet(dt).Lookup(cc.Method.Pkg(), cc.Method.Name())
	if sel == nil {
		x.unsupported("method not found: " + cc.Method.Name() + " on " + dt.String())
	}
	m := x.P.Prog.MethodValue(sel)
	rv := x.unbox(iv, dt)
	all := append([]Value{rv}, args...)
	if asDeferred {
		return x.callMarked(fr, m, all, nil)
	}
	return x.call(fr, m, all, nil)
}

// opaqueMethod models method calls on opaque stub values (errors from stubs).
func (x *Exec) opaqueMethod(fr *frame, tag string, cc *ssa.CallCommon, iv Agg) Value {
	switch cc.Method.Name() {
	case "Error", "String":
		x.Stubs["opaque."+cc.Method.Name()] = true
		return x.stringConst("<" + tag + ">")
	case "Close":
		return core.Zero(tIface)
	}
	x.unsupported("method " + cc.Method.Name() + " on opaque value " + tag)
	return nil
}

// ---- interfaces ---------------------------------------------------------

func (x *Exec) typeDesc(t types.Type) uint64 {
	if v := x.typeAddr.At(t); v != nil {
		return v.(uint64)
	}
	a := x.M.Mem.Alloc(8, "type:"+t.String())
	a.ReadOnly = true
	x.typeAddr.Set(t, a.Base)
	x.addrType[a.Base] = t
	return a.Base
}

func (x *Exec) makeIface(t types.Type, v Value) Value {
	lt := x.L.Of(t)
	box := x.M.Mem.Alloc(lt.Size, "box:"+t.String())
	x.M.Mem.Store(box.Ptr(), lt, v, &x.hooks, "box")
	return Agg{smt.Const(64, x.typeDesc(t)), box.Ptr()}
}

func (x *Exec) unbox(iv Agg, t types.Type) Value {
	return x.M.Mem.Load(iv[1].(*smt.Term), x.L.Of(t), &x.hooks, "unbox")
}

func (x *Exec) typeAssert(fr *frame, i *ssa.TypeAssert) Value {
	iv := x.get(fr, i.X).(Agg)
	tw := iv[0].(*smt.Term)
	var ok *smt.Term
	var val Value
	if isIface(i.AssertedType) {
		ta := x.concretize(tw, "dynamic type")
		if ta == 0 {
			ok = smt.False
		} else if dt, known := x.addrType[ta]; known {
			ok = smt.Bool(types.Implements(dt, i.AssertedType.Underlying().(*types.Interface)))
		} else {
			// opaque stub values implement error/Stringer only
			ok = smt.Bool(i.AssertedType.Underlying().(*types.Interface).NumMethods() == 0 || types.Identical(i.AssertedType, types.Universe.Lookup("error").Type()))
		}
		val = iv
		if ok.IsFalse() {
			val = core.Zero(tIface)
		}
	} else {
		d := x.typeDesc(i.AssertedType)
		ok = smt.Eq(tw, smt.Const(64, d))
		if x.M.Branch(ok) {
			ok = smt.True
			val = x.unbox(iv, i.AssertedType)
		} else {
			ok = smt.False
			val = core.Zero(x.L.Of(i.AssertedType))
		}
	}
	if i.CommaOk {
		return Agg{val, ok}
	}
	if ok.IsFalse() {
		x.rtPanic("typeassert", "interface conversion failed at "+x.pos(i.Pos()))
	}
	return val
}

// ---- goroutines (delegated to sched.go) ------------------------------------

func (x *Exec) chanSend(fr *frame, i *ssa.Send) { x.chanSendVal(x.get(fr, i.Chan), x.get(fr, i.X)) }

// ---- API for the translation-validation driver --------------------------------

// PanicInfo describes a Go-level panic that escaped a call.
type PanicInfo struct {
	Class string // "" = user panic
	Msg   string
	Val   Value
}

// StartShared resets the per-path state without touching the machine's memory
// (used when several executors share one machine).
func (x *Exec) StartShared() { x.resetPath() }

// CallGo runs fn on args with Go semantics; a panic that escapes is returned.
func (x *Exec) CallGo(fn *ssa.Function, args []Value) (res Value, pan *PanicInfo) {
	defer func() {
		if r := recover(); r != nil {
			if gp, ok := r.(*goPanic); ok {
				pan = &PanicInfo{Class: gp.class, Msg: gp.msg, Val: gp.val}
				return
			}
			panic(r)
		}
	}()
	res = x.call(nil, fn, args, nil)
	return
}

// ConstStringOf reads a concrete string value (for panic messages).
func (x *Exec) ConstStringOf(v Value) (s string, ok bool) {
	defer func() {
		if r := recover(); r != nil {
			ok = false
		}
	}()
	return x.constString(v), true
}

// Layout exposes the machine type of a Go type.
func (x *Exec) LayoutOf(t types.Type) *core.Type { return x.L.Of(t) }

// FreshExtern returns an arbitrary value of type t (result of an external call).
func (x *Exec) FreshOf(t types.Type, name string) Value {
	return freshOf(x.M, x.L.Of(t), name)
}

func freshOf(m *core.Machine, t *core.Type, name string) Value {
	switch t.Kind {
	case core.KBool:
		return m.Fresh(name, 0)
	case core.KInt:
		return m.Fresh(name, t.Bits)
	case core.KStruct:
		a := make(Agg, len(t.Fields))
		for i, f := range t.Fields {
			a[i] = freshOf(m, f.T, fmt.Sprintf("%s.%d", name, i))
		}
		return a
	case core.KArray:
		a := make(Agg, t.N)
		for i := range a {
			a[i] = freshOf(m, t.Elem, fmt.Sprintf("%s[%d]", name, i))
		}
		return a
	}
	return nil
}
