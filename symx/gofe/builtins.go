package gofe

import (
	"fmt"
	"go/token"
	"go/types"

	"github.com/goplus/llgo/zz_verif_symx/core"
	"github.com/goplus/llgo/zz_verif_symx/smt"
	"golang.org/x/tools/go/ssa"
)

// allocBound returns the number of bytes available from pointer p to the end
// of its allocation (concrete), or -1 when p is nil / unresolvable.
func (x *Exec) allocBound(p *smt.Term) int {
	ts := x.M.Mem.Resolve(p)
	best := -1
	for _, t := range ts {
		if t.A == nil {
			continue
		}
		n := t.A.Size
		if t.Off.IsConst() {
			n = t.A.Size - int(t.Off.Uint())
		}
		if n > best {
			best = n
		}
	}
	return best
}

// lenBound gives a concrete upper bound for a byte length starting at p.
func (x *Exec) lenBound(p, ln *smt.Term, es int) int {
	if ln.IsConst() {
		return int(ln.Uint())
	}
	b := x.allocBound(p)
	if b < 0 {
		return 0
	}
	if es > 1 {
		return b / es
	}
	return b
}

// readBytes reads up to max bytes of a (ptr,len) region; entries at index >=
// len are unspecified (callers must guard with i < len).
func (x *Exec) readBytes(p, ln *smt.Term, max int, what string) []*smt.Term {
	out := make([]*smt.Term, 0, max)
	for i := 0; i < max; i++ {
		// stop at the concrete allocation end
		if !ln.IsConst() {
			if b := x.allocBound(smt.Add(p, c64(uint64(i)))); b <= 0 {
				break
			}
		}
		if ln.IsConst() {
			out = append(out, x.M.Mem.LoadRaw(smt.Add(p, c64(uint64(i))), 1, &x.hooks, what)[0])
			continue
		}
		// byte i exists only when i < ln: the access (and its bounds obligation)
		// is made under that condition; callers use the byte under the same guard
		inRange := smt.Ugt(ln, c64(uint64(i)))
		if !x.M.Feasible(inRange) {
			break
		}
		saved := x.M.PC
		x.M.PC = append(append([]*smt.Term{}, saved...), inRange)
		b := x.M.Mem.LoadRaw(smt.Add(p, c64(uint64(i))), 1, &x.hooks, what)[0]
		x.M.PC = saved
		out = append(out, b)
	}
	return out
}

func (x *Exec) stringEq(a, b Agg) *smt.Term {
	al, bl := a[1].(*smt.Term), b[1].(*smt.Term)
	ap, bp := a[0].(*smt.Term), b[0].(*smt.Term)
	leq := smt.Eq(al, bl)
	if leq.IsFalse() {
		return smt.False
	}
	na, nb := x.lenBound(ap, al, 1), x.lenBound(bp, bl, 1)
	n := na
	if nb < n {
		n = nb
	}
	if n == 0 {
		return leq
	}
	ab := x.readBytes(ap, al, n, "string compare")
	bb := x.readBytes(bp, bl, n, "string compare")
	r := leq
	for i := 0; i < n && i < len(ab) && i < len(bb); i++ {
		r = smt.BAnd(r, smt.Implies(smt.Ugt(al, c64(uint64(i))), smt.Eq(ab[i], bb[i])))
	}
	return r
}

// stringLess is bytewise lexicographic order.
func (x *Exec) stringLess(a, b Agg) *smt.Term {
	al, bl := a[1].(*smt.Term), b[1].(*smt.Term)
	ap, bp := a[0].(*smt.Term), b[0].(*smt.Term)
	na, nb := x.lenBound(ap, al, 1), x.lenBound(bp, bl, 1)
	n := na
	if nb < n {
		n = nb
	}
	ab := x.readBytes(ap, al, n, "string compare")
	bb := x.readBytes(bp, bl, n, "string compare")
	if len(ab) < n {
		n = len(ab)
	}
	if len(bb) < n {
		n = len(bb)
	}
	// result when all compared bytes equal: shorter is less
	r := smt.Ult(al, bl)
	for i := n - 1; i >= 0; i-- {
		k := c64(uint64(i))
		inA, inB := smt.Ugt(al, k), smt.Ugt(bl, k)
		both := smt.BAnd(inA, inB)
		r = smt.Ite(both, smt.Ite(smt.Eq(ab[i], bb[i]), r, smt.Ult(ab[i], bb[i])), smt.BAnd(smt.BNot(inA), inB))
	}
	return r
}

func (x *Exec) stringOp(op token.Token, a, b Agg) Value {
	switch op {
	case token.ADD:
		return x.stringConcat(a, b)
	case token.EQL:
		return x.stringEq(a, b)
	case token.NEQ:
		return smt.BNot(x.stringEq(a, b))
	case token.LSS:
		return x.stringLess(a, b)
	case token.GTR:
		return x.stringLess(b, a)
	case token.LEQ:
		return smt.BNot(x.stringLess(b, a))
	case token.GEQ:
		return smt.BNot(x.stringLess(a, b))
	}
	x.unsupported("string op " + op.String())
	return nil
}

func (x *Exec) stringConcat(a, b Agg) Value {
	al, bl := a[1].(*smt.Term), b[1].(*smt.Term)
	if al.IsConst() && al.Uint() == 0 {
		return b
	}
	if bl.IsConst() && bl.Uint() == 0 {
		return a
	}
	ap, bp := a[0].(*smt.Term), b[0].(*smt.Term)
	na, nb := x.lenBound(ap, al, 1), x.lenBound(bp, bl, 1)
	res := x.M.Mem.Alloc(na+nb, "strcat")
	x.copyBytes(res.Ptr(), ap, al, na, "strcat")
	x.copyBytes(smt.Add(res.Ptr(), al), bp, bl, nb, "strcat")
	return Agg{res.Ptr(), smt.Add(al, bl)}
}

// copyBytes copies n (≤ max) bytes with memmove semantics.
func (x *Exec) copyBytes(dst, src, n *smt.Term, max int, what string) {
	x.M.Mem.Memcpy(dst, src, n, max, true, &x.hooks, what, nil)
}

func (x *Exec) stringToBytes(s Agg) Value {
	p, l := s[0].(*smt.Term), s[1].(*smt.Term)
	n := x.lenBound(p, l, 1)
	res := x.M.Mem.Alloc(n, "[]byte(string)")
	x.copyBytes(res.Ptr(), p, l, n, "[]byte(string)")
	return Agg{res.Ptr(), l, l}
}

func (x *Exec) bytesToString(s Agg) Value {
	p, l := s[0].(*smt.Term), s[1].(*smt.Term)
	n := x.lenBound(p, l, 1)
	if n == 0 {
		return Agg{c64(0), c64(0)}
	}
	res := x.M.Mem.Alloc(n, "string([]byte)")
	x.copyBytes(res.Ptr(), p, l, n, "string([]byte)")
	return Agg{res.Ptr(), l}
}

// builtin implements the Go builtins.
func (x *Exec) builtin(fr *frame, b *ssa.Builtin, args []Value, cc *ssa.CallCommon, deferred bool) Value {
	argT := func(i int) types.Type {
		if cc != nil {
			return cc.Args[i].Type()
		}
		return b.Type().(*types.Signature).Params().At(i).Type()
	}
	switch b.Name() {
	case "len":
		switch u := argT(0).Underlying().(type) {
		case *types.Basic, *types.Slice:
			return args[0].(Agg)[1]
		case *types.Array:
			return c64(uint64(u.Len()))
		case *types.Pointer:
			return c64(uint64(u.Elem().Underlying().(*types.Array).Len()))
		case *types.Map:
			return x.mapLen(args[0])
		case *types.Chan:
			return x.chanLen(args[0])
		}
	case "cap":
		switch u := argT(0).Underlying().(type) {
		case *types.Chan:
			return x.chanCap(args[0])
		case *types.Slice:
			return args[0].(Agg)[2]
		case *types.Array:
			return c64(uint64(u.Len()))
		case *types.Pointer:
			return c64(uint64(u.Elem().Underlying().(*types.Array).Len()))
		}
	case "append":
		return x.appendBuiltin(argT(0), args[0].(Agg), args[1], argT(1))
	case "copy":
		dst := args[0].(Agg)
		src := args[1].(Agg)
		es := x.L.Of(argT(0).Underlying().(*types.Slice).Elem()).Size
		dl, sl := dst[1].(*smt.Term), src[1].(*smt.Term)
		n := smt.Ite(smt.Slt(dl, sl), dl, sl)
		nb := x.lenBound(src[0].(*smt.Term), sl, es)
		if db := x.lenBound(dst[0].(*smt.Term), dl, es); db < nb {
			nb = db
		}
		x.copyBytes(dst[0].(*smt.Term), src[0].(*smt.Term), smt.Mul(n, c64(uint64(es))), nb*es, "copy")
		return n
	case "close":
		x.chanClose(args[0])
		return nil
	case "panic":
		panic(&goPanic{val: args[0]})
	case "recover":
		return x.doRecover(fr)
	case "print", "println":
		return nil
	case "delete":
		x.mapDelete(args[0], args[1], argT(0))
		return nil
	case "min", "max":
		r := args[0].(*smt.Term)
		signed := isSigned(argT(0))
		for _, a := range args[1:] {
			t := a.(*smt.Term)
			var lt *smt.Term
			if signed {
				lt = smt.Slt(t, r)
			} else {
				lt = smt.Ult(t, r)
			}
			if b.Name() == "max" {
				lt = smt.BNot(smt.BOr(lt, smt.Eq(t, r)))
			}
			r = smt.Ite(lt, t, r)
		}
		return r
	case "ssa:wrapnilchk":
		x.nilCheck(args[0].(*smt.Term), "method value on nil pointer")
		return args[0]
	case "Sizeof":
		return c64(uint64(x.L.Of(argT(0)).Size))
	case "Alignof":
		return c64(uint64(x.L.Of(argT(0)).Align))
	case "Add": // unsafe.Add
		return smt.Add(args[0].(*smt.Term), idx64(args[1].(*smt.Term), argT(1)))
	case "String": // unsafe.String(ptr, len)
		return Agg{args[0], idx64(args[1].(*smt.Term), argT(1))}
	case "StringData":
		return args[0].(Agg)[0]
	case "Slice": // unsafe.Slice(ptr, len)
		l := idx64(args[1].(*smt.Term), argT(1))
		return Agg{args[0], l, l}
	case "SliceData":
		return args[0].(Agg)[0]
	case "real":
		return args[0].(Agg)[0]
	case "imag":
		return args[0].(Agg)[1]
	case "complex":
		return Agg{args[0], args[1]}
	case "clear":
		switch u := argT(0).Underlying().(type) {
		case *types.Map:
			x.mapClear(args[0])
			return nil
		case *types.Slice:
			s := args[0].(Agg)
			es := x.L.Of(u.Elem()).Size
			nb := x.lenBound(s[0].(*smt.Term), s[1].(*smt.Term), es)
			for i := 0; i < nb*es; i++ {
				if !x.M.Branch(smt.Ugt(smt.Mul(s[1].(*smt.Term), c64(uint64(es))), c64(uint64(i)))) {
					break
				}
				x.M.Mem.StoreRaw(smt.Add(s[0].(*smt.Term), c64(uint64(i))), []*smt.Term{smt.Const(8, 0)}, &x.hooks, "clear")
			}
			return nil
		}
	}
	x.unsupported("builtin " + b.Name())
	return nil
}

// doRecover implements recover(): effective only when called directly by a
// deferred function while its caller is panicking.
func (x *Exec) doRecover(fr *frame) Value {
	if fr != nil && fr.isDeferred && fr.caller != nil && fr.caller.panicking {
		fr.caller.panicking = false
		p := fr.caller.panic
		fr.caller.panic = nil
		return p.val
	}
	return core.Zero(tIface)
}

// appendBuiltin: append(s, t...) with Go semantics; growth allocates a fresh
// array with a concrete capacity (the spec leaves capacity open).
func (x *Exec) appendBuiltin(st types.Type, s Agg, tv Value, tt types.Type) Value {
	es := x.L.Of(st.Underlying().(*types.Slice).Elem()).Size
	var tp, tl *smt.Term
	if tv == nil {
		return s
	}
	ta := tv.(Agg)
	tp, tl = ta[0].(*smt.Term), ta[1].(*smt.Term)
	sp, sl, sc := s[0].(*smt.Term), s[1].(*smt.Term), s[2].(*smt.Term)
	if tl.IsConst() && tl.Uint() == 0 {
		return s
	}
	nl := smt.Add(sl, tl)
	tb := x.lenBound(tp, tl, es)
	if x.M.Branch(smt.Sle(nl, sc)) {
		x.copyBytes(smt.Add(sp, smt.Mul(sl, c64(uint64(es)))), tp, smt.Mul(tl, c64(uint64(es))), tb*es, "append")
		return Agg{sp, nl, sc}
	}
	sb := x.lenBound(sp, sl, es)
	ncap := 2*sb + tb
	if ncap < 4 {
		ncap = 4
	}
	a := x.M.Mem.Alloc(ncap*es, "append")
	x.copyBytes(a.Ptr(), sp, smt.Mul(sl, c64(uint64(es))), sb*es, "append(old)")
	x.copyBytes(smt.Add(a.Ptr(), smt.Mul(sl, c64(uint64(es)))), tp, smt.Mul(tl, c64(uint64(es))), tb*es, "append(new)")
	return Agg{a.Ptr(), nl, c64(uint64(ncap))}
}

// ---- range / next over strings and maps -----------------------------------

type iterState struct {
	isMap bool
	str   Agg
	pos   *smt.Term
	m     *gmap
	idx   int
	kt    types.Type
}

func (x *Exec) rangeInit(fr *frame, i *ssa.Range) Value {
	v := x.get(fr, i.X)
	a := x.M.Mem.Alloc(8, "iter")
	if isString(i.X.Type()) {
		a.Tag = &iterState{str: v.(Agg), pos: c64(0)}
	} else {
		m := x.mapOf(v)
		st := &iterState{isMap: true, m: m}
		if m != nil && x.Cfg.MapReverse {
			st.idx = len(m.keys) - 1
		}
		a.Tag = st
	}
	return a.Ptr()
}

func (x *Exec) next(fr *frame, i *ssa.Next) Value {
	p := x.get(fr, i.Iter).(*smt.Term)
	st := x.M.Mem.Find(p.Uint()).Tag.(*iterState)
	tup := i.Type().(*types.Tuple)
	if i.IsString {
		s := st.str
		if !x.M.Branch(smt.Slt(st.pos, s[1].(*smt.Term))) {
			return Agg{smt.False, c64(0), smt.Const(32, 0)}
		}
		rest := Agg{smt.Add(s[0].(*smt.Term), st.pos), smt.Sub(s[1].(*smt.Term), st.pos)}
		dec := x.P.PkgByPath("unicode/utf8")
		if dec == nil {
			x.unsupported("range over string needs unicode/utf8 in the program")
		}
		r := x.call(fr, dec.Func("DecodeRuneInString"), []Value{rest}, nil).(Agg)
		k := st.pos
		st.pos = smt.Add(st.pos, r[1].(*smt.Term))
		return Agg{smt.True, k, r[0]}
	}
	m := st.m
	kz, vz := core.Zero(x.L.Of(tup.At(1).Type())), core.Zero(x.L.Of(tup.At(2).Type()))
	if m == nil {
		return Agg{smt.False, kz, vz}
	}
	for st.idx >= 0 && st.idx < len(m.keys) {
		k := st.idx
		if x.Cfg.MapReverse {
			st.idx--
		} else {
			st.idx++
		}
		if x.M.Branch(m.live[k]) {
			var kv, vv Value = kz, vz
			if _, blank := tup.At(1).Type().(*types.Tuple); !blank {
				kv = m.keys[k]
			}
			vv = m.vals[k]
			if types.Identical(tup.At(1).Type(), types.Typ[types.Invalid]) {
				kv = nil
			}
			if types.Identical(tup.At(2).Type(), types.Typ[types.Invalid]) {
				vv = nil
			}
			return Agg{smt.True, kv, vv}
		}
	}
	return Agg{smt.False, kz, vz}
}

func (x *Exec) doGo(fr *frame, i *ssa.Go) {
	if x.sched == nil {
		x.sched = newScheduler(x)
	}
	x.sched.spawn(fr, i)
}

var _ = fmt.Sprintf
