package gofe

import (
	"fmt"
	"go/types"

	"github.com/goplus/llgo/zz_verif_symx/core"
	"golang.org/x/tools/go/types/typeutil"
)

// Layout maps Go types to machine types using llgo's representation on a
// 64-bit target: func values are two words {fn, ctx}, interfaces {type, data},
// strings {ptr, len}, slices {ptr, len, cap}.
type Layout struct {
	cache   typeutil.Map
	PtrBits int
}

var (
	tPtr    = core.TI64
	tString = core.StructOf("string", core.TI64, core.TI64)
	tSlice  = core.StructOf("slice", core.TI64, core.TI64, core.TI64)
	tIface  = core.StructOf("iface", core.TI64, core.TI64)
	tFunc   = core.StructOf("func", core.TI64, core.TI64)
)

func (l *Layout) Of(t types.Type) *core.Type {
	if v := l.cache.At(t); v != nil {
		return v.(*core.Type)
	}
	r := l.compute(t)
	l.cache.Set(t, r)
	return r
}

func (l *Layout) compute(t types.Type) *core.Type {
	switch u := t.Underlying().(type) {
	case *types.Basic:
		switch u.Kind() {
		case types.Bool, types.UntypedBool:
			return core.TBool
		case types.Int8, types.Uint8:
			return core.TI8
		case types.Int16, types.Uint16:
			return core.TI16
		case types.Int32, types.Uint32, types.Float32, types.UntypedRune:
			return core.TI32
		case types.Int, types.Uint, types.Int64, types.Uint64, types.Uintptr, types.Float64, types.UnsafePointer, types.UntypedInt, types.UntypedFloat, types.UntypedNil:
			return core.TI64
		case types.Complex64:
			return core.StructOf("complex64", core.TI32, core.TI32)
		case types.Complex128, types.UntypedComplex:
			return core.StructOf("complex128", core.TI64, core.TI64)
		case types.String, types.UntypedString:
			return tString
		}
	case *types.Pointer, *types.Map, *types.Chan:
		return tPtr
	case *types.Signature:
		return tFunc
	case *types.Interface:
		return tIface
	case *types.Slice:
		return tSlice
	case *types.Struct:
		fs := make([]*core.Type, u.NumFields())
		for i := range fs {
			fs[i] = l.Of(u.Field(i).Type())
		}
		return core.StructOf(types.TypeString(t, nil), fs...)
	case *types.Array:
		return core.ArrayOf(int(u.Len()), l.Of(u.Elem()))
	case *types.Tuple:
		fs := make([]*core.Type, u.Len())
		for i := range fs {
			fs[i] = l.Of(u.At(i).Type())
		}
		return core.StructOf("tuple", fs...)
	}
	panic(fmt.Sprintf("gofe.Layout: unsupported type %s (%T)", t, t.Underlying()))
}

func isSigned(t types.Type) bool {
	b, ok := t.Underlying().(*types.Basic)
	return ok && b.Info()&types.IsInteger != 0 && b.Info()&types.IsUnsigned == 0
}

func isUnsigned(t types.Type) bool {
	b, ok := t.Underlying().(*types.Basic)
	return ok && b.Info()&types.IsUnsigned != 0
}

func isInteger(t types.Type) bool {
	b, ok := t.Underlying().(*types.Basic)
	return ok && b.Info()&types.IsInteger != 0
}

func isFloat(t types.Type) bool {
	b, ok := t.Underlying().(*types.Basic)
	return ok && b.Info()&types.IsFloat != 0
}

func isComplex(t types.Type) bool {
	b, ok := t.Underlying().(*types.Basic)
	return ok && b.Info()&types.IsComplex != 0
}

func isString(t types.Type) bool {
	b, ok := t.Underlying().(*types.Basic)
	return ok && b.Info()&types.IsString != 0
}

func isBool(t types.Type) bool {
	b, ok := t.Underlying().(*types.Basic)
	return ok && b.Info()&types.IsBoolean != 0
}

func isIface(t types.Type) bool {
	_, ok := t.Underlying().(*types.Interface)
	return ok
}

func isPointerLike(t types.Type) bool {
	switch u := t.Underlying().(type) {
	case *types.Pointer, *types.Map, *types.Chan:
		return true
	case *types.Basic:
		return u.Kind() == types.UnsafePointer || u.Kind() == types.UntypedNil
	}
	return false
}
