package gofe

import (
	"go/types"

	"github.com/goplus/llgo/zz_verif_symx/core"
	"github.com/goplus/llgo/zz_verif_symx/smt"
	"golang.org/x/tools/go/ssa"
)

// Builtin channel model of the oracle: Go-specification semantics of channel
// operations as far as ONE goroutine can observe them without blocking
// (buffered sends with room, receives from a non-empty or closed channel,
// close, len/cap, select with at most one ready case).  An operation that
// would block forever ends the path as out of scope.

type gchan struct {
	et     types.Type
	cap    int
	buf    []Value
	closed bool
}

func (x *Exec) makeChan(i *ssa.MakeChan, size Value) Value {
	n := x.concretize(size.(*smt.Term), "channel capacity")
	a := x.M.Mem.Alloc(8, "chan")
	a.Tag = &gchan{et: i.Type().Underlying().(*types.Chan).Elem(), cap: int(n)}
	return a.Ptr()
}

func (x *Exec) chanOf(v Value) *gchan {
	p := x.concretize(v.(*smt.Term), "channel pointer")
	if p == 0 {
		return nil
	}
	a := x.M.Mem.Find(p)
	if a == nil {
		x.unsupported("channel pointer outside any allocation")
	}
	c, ok := a.Tag.(*gchan)
	if !ok {
		x.unsupported("pointer is not a builtin channel")
	}
	return c
}

func (x *Exec) blocks(what string) {
	x.M.Inconclusive("chan.blocks", what+" would block forever in a single goroutine (outside the oracle's channel model)")
	x.M.EndPath("blocks")
}

func (x *Exec) chanSendVal(ch Value, v Value) {
	c := x.chanOf(ch)
	switch {
	case c == nil:
		x.blocks("send on nil channel")
	case c.closed:
		x.rtPanic("chan", "send on closed channel")
	case len(c.buf) < c.cap:
		c.buf = append(c.buf, v)
	default:
		x.blocks("send on a full channel")
	}
}

func (x *Exec) chanRecvVal(ch Value) (Value, *smt.Term) {
	c := x.chanOf(ch)
	switch {
	case c == nil:
		x.blocks("receive from nil channel")
	case len(c.buf) > 0:
		v := c.buf[0]
		c.buf = c.buf[1:]
		return v, smt.True
	case c.closed:
		return core.Zero(x.L.Of(c.et)), smt.False
	}
	x.blocks("receive from an empty channel")
	return nil, nil
}

func (x *Exec) chanClose(ch Value) {
	c := x.chanOf(ch)
	switch {
	case c == nil:
		x.rtPanic("chan", "close of nil channel")
	case c.closed:
		x.rtPanic("chan", "close of closed channel")
	}
	c.closed = true
}

func (x *Exec) chanLen(ch Value) Value {
	if c := x.chanOf(ch); c != nil {
		return c64(uint64(len(c.buf)))
	}
	return c64(0)
}

func (x *Exec) chanCap(ch Value) Value {
	if c := x.chanOf(ch); c != nil {
		return c64(uint64(c.cap))
	}
	return c64(0)
}

// selectStmt: at most one case may be ready (the choice among several ready
// cases is random in Go and cannot be compared).
func (x *Exec) selectStmt(fr *frame, s *ssa.Select) Value {
	ready := -1
	for k, st := range s.States {
		c := x.chanOf(x.get(fr, st.Chan))
		if c == nil {
			continue
		}
		ok := false
		if st.Dir == types.SendOnly {
			ok = c.closed || len(c.buf) < c.cap
		} else {
			ok = c.closed || len(c.buf) > 0
		}
		if ok {
			if ready >= 0 {
				x.unsupported("select with several ready cases (random choice)")
			}
			ready = k
		}
	}
	// result tuple: (index, recvOk, recv values of the receive states...)
	res := Agg{smt.Const(64, ^uint64(0)), smt.False}
	for _, st := range s.States {
		if st.Dir == types.RecvOnly {
			res = append(res, core.Zero(x.L.Of(st.Chan.Type().Underlying().(*types.Chan).Elem())))
		}
	}
	if ready < 0 {
		if s.Blocking {
			x.blocks("select without a ready case")
		}
		return res
	}
	st := s.States[ready]
	res[0] = smt.Const(64, uint64(ready))
	if st.Dir == types.SendOnly {
		x.chanSendVal(x.get(fr, st.Chan), x.get(fr, st.Send))
		return res
	}
	v, ok := x.chanRecvVal(x.get(fr, st.Chan))
	res[1] = ok
	ri := 2
	for k, o := range s.States {
		if o.Dir == types.RecvOnly {
			if k == ready {
				res[ri] = v
			}
			ri++
		}
	}
	return res
}
