package gofe

import (
	"fmt"
	"go/types"

	"github.com/goplus/llgo/zz_verif_symx/core"
	"github.com/goplus/llgo/zz_verif_symx/smt"
	"golang.org/x/tools/go/ssa"
)

// Environment stubs for archive extraction (C20): the archive readers return
// arbitrary headers, the file system calls are recorded as events.

func (x *Exec) namedType(pkg, name string) types.Type {
	p := x.P.PkgByPath(pkg)
	if p == nil {
		x.unsupported("package " + pkg + " not loaded")
	}
	m := p.Members[name]
	if m == nil {
		x.unsupported("type " + pkg + "." + name + " not found")
	}
	return m.Type()
}

// fieldOff finds a (possibly embedded) field by name.
func (x *Exec) fieldOff(t types.Type, name string) (int, types.Type) {
	st := t.Underlying().(*types.Struct)
	lt := x.L.Of(t)
	for i := 0; i < st.NumFields(); i++ {
		f := st.Field(i)
		if f.Name() == name {
			return lt.Fields[i].Off, f.Type()
		}
		if f.Embedded() {
			if _, ok := f.Type().Underlying().(*types.Struct); ok {
				func() {
					defer func() { recover() }()
				}()
				if off, ft := x.tryFieldOff(f.Type(), name); ft != nil {
					return lt.Fields[i].Off + off, ft
				}
			}
		}
	}
	x.unsupported("field " + name + " not found in " + t.String())
	return 0, nil
}

func (x *Exec) tryFieldOff(t types.Type, name string) (int, types.Type) {
	st := t.Underlying().(*types.Struct)
	lt := x.L.Of(t)
	for i := 0; i < st.NumFields(); i++ {
		f := st.Field(i)
		if f.Name() == name {
			return lt.Fields[i].Off, f.Type()
		}
		if f.Embedded() {
			if _, ok := f.Type().Underlying().(*types.Struct); ok {
				if off, ft := x.tryFieldOff(f.Type(), name); ft != nil {
					return lt.Fields[i].Off + off, ft
				}
			}
		}
	}
	return 0, nil
}

func (x *Exec) newObj(t types.Type, name string) *core.Alloc {
	return x.M.Mem.Alloc(x.L.Of(t).Size, name)
}

func (x *Exec) setField(obj *core.Alloc, t types.Type, field string, v Value) {
	off, ft := x.fieldOff(t, field)
	x.M.Mem.Store(smt.Add(obj.Ptr(), c64(uint64(off))), x.L.Of(ft), v, &x.hooks, "stub field "+field)
}

// ndName builds a symbolic entry name of at most n bytes.
func (x *Exec) ndName(name string, n int) Value {
	a := x.M.Mem.AllocSym(n, name)
	l := x.M.Fresh(name+".len", 64)
	x.M.Assume(smt.Ule(l, c64(uint64(n))))
	// archive names are C strings / PAX records: they cannot contain NUL
	for _, b := range a.Bytes {
		x.M.Assume(smt.Ne(b, smt.Const(8, 0)))
	}
	return Agg{a.Ptr(), l}
}

func (x *Exec) event(kind string, args ...Value) {
	x.events = append(x.events, Event{Kind: kind, Args: args})
}

func (x *Exec) nilErr() Value { return core.Zero(tIface) }

// RegisterArchiveStubs installs the C20 environment; nameLen / maxEntries are
// the bounds of the symbolic archive.
func RegisterArchiveStubs(x *Exec, nameLen, maxEntries int) {
	in := x.Intrinsic
	stub := func(name, what string, f Intrinsic) {
		in[name] = func(x *Exec, fr *frame, args []Value, cc *ssa.CallCommon) Value {
			x.Stubs[name+" -> "+what] = true
			return f(x, fr, args, cc)
		}
	}
	opaquePtr := func(x *Exec, tag string) *smt.Term {
		a := x.M.Mem.Alloc(64, "opaque:"+tag)
		a.Tag = tag
		return a.Ptr()
	}
	stub("os.Open", "opaque file, no error", func(x *Exec, fr *frame, args []Value, _ *ssa.CallCommon) Value {
		return Agg{opaquePtr(x, "os.File"), x.nilErr()}
	})
	stub("(*os.File).Close", "nil", func(x *Exec, fr *frame, args []Value, _ *ssa.CallCommon) Value { return x.nilErr() })
	stub("compress/gzip.NewReader", "opaque reader, no error", func(x *Exec, fr *frame, args []Value, _ *ssa.CallCommon) Value {
		return Agg{opaquePtr(x, "gzip.Reader"), x.nilErr()}
	})
	stub("(*compress/gzip.Reader).Close", "nil", func(x *Exec, fr *frame, args []Value, _ *ssa.CallCommon) Value { return x.nilErr() })
	stub("archive/tar.NewReader", "opaque reader", func(x *Exec, fr *frame, args []Value, _ *ssa.CallCommon) Value {
		return opaquePtr(x, "tar.Reader")
	})
	entries := 0
	_ = entries
	stub("(*archive/tar.Reader).Next", fmt.Sprintf("arbitrary header (name <= %d bytes, any typeflag/mode/linkname), at most %d entries then io.EOF", nameLen, maxEntries),
		func(x *Exec, fr *frame, args []Value, _ *ssa.CallCommon) Value {
			n := 0
			for _, e := range x.events {
				if e.Kind == "tar.Next" {
					n++
				}
			}
			ht := x.namedType("archive/tar", "Header")
			if n >= maxEntries || !x.M.Branch(x.M.Fresh(fmt.Sprintf("tar.more%d", n), 0)) {
				eof := x.P.PkgByPath("io").Var("EOF")
				ev := x.load(x.globalAddr(eof), eof.Type().(*types.Pointer).Elem(), "io.EOF")
				return Agg{c64(0), ev}
			}
			h := x.newObj(ht, "tar.Header")
			nm := x.ndName(fmt.Sprintf("e%d.name", n), nameLen)
			x.setField(h, ht, "Name", nm)
			tf := x.M.Fresh(fmt.Sprintf("e%d.typeflag", n), 8)
			x.setField(h, ht, "Typeflag", tf)
			x.setField(h, ht, "Mode", x.M.Fresh(fmt.Sprintf("e%d.mode", n), 64))
			ln := x.ndName(fmt.Sprintf("e%d.link", n), nameLen)
			x.setField(h, ht, "Linkname", ln)
			x.event("tar.Next", nm, ln, smt.ZExt(tf, 64))
			return Agg{h.Ptr(), x.nilErr()}
		})
	fsEvent := func(kind string, res func(x *Exec) Value) Intrinsic {
		return func(x *Exec, fr *frame, args []Value, _ *ssa.CallCommon) Value {
			x.event(kind, args[0])
			return res(x)
		}
	}
	stub("os.MkdirAll", "event, nil", fsEvent("MkdirAll", func(x *Exec) Value { return x.nilErr() }))
	stub("os.Mkdir", "event, nil", fsEvent("Mkdir", func(x *Exec) Value { return x.nilErr() }))
	stub("os.OpenFile", "event, opaque file", fsEvent("OpenFile", func(x *Exec) Value { return Agg{opaquePtr(x, "os.File"), x.nilErr()} }))
	stub("os.Create", "event, opaque file", fsEvent("Create", func(x *Exec) Value { return Agg{opaquePtr(x, "os.File"), x.nilErr()} }))
	stub("os.WriteFile", "event, nil", fsEvent("WriteFile", func(x *Exec) Value { return x.nilErr() }))
	stub("os.Symlink", "event(newname, oldname), nil", func(x *Exec, fr *frame, args []Value, _ *ssa.CallCommon) Value {
		x.event("Symlink", args[1], args[0])
		return x.nilErr()
	})
	stub("os.Link", "event(newname, oldname), nil", func(x *Exec, fr *frame, args []Value, _ *ssa.CallCommon) Value {
		x.event("Link", args[1], args[0])
		return x.nilErr()
	})
	stub("os.Remove", "event, nil", fsEvent("Remove", func(x *Exec) Value { return x.nilErr() }))
	stub("os.RemoveAll", "event, nil", fsEvent("RemoveAll", func(x *Exec) Value { return x.nilErr() }))
	stub("os.Chmod", "nil", func(x *Exec, fr *frame, args []Value, _ *ssa.CallCommon) Value { return x.nilErr() })
	stub("os.Chtimes", "nil", func(x *Exec, fr *frame, args []Value, _ *ssa.CallCommon) Value { return x.nilErr() })
	stub("io.Copy", "(0, nil)", func(x *Exec, fr *frame, args []Value, _ *ssa.CallCommon) Value { return Agg{c64(0), x.nilErr()} })

	// ---- zip ---------------------------------------------------------------
	stub("archive/zip.OpenReader", fmt.Sprintf("reader with at most %d files with arbitrary names (<= %d bytes) and attributes", maxEntries, nameLen),
		func(x *Exec, fr *frame, args []Value, _ *ssa.CallCommon) Value {
			rt := x.namedType("archive/zip", "ReadCloser")
			ft := x.namedType("archive/zip", "File")
			rc := x.newObj(rt, "zip.ReadCloser")
			n := 0
			for n < maxEntries && x.M.Branch(x.M.Fresh(fmt.Sprintf("zip.more%d", n), 0)) {
				n++
			}
			arr := x.M.Mem.Alloc(8*maxEntries, "zip.files")
			for i := 0; i < n; i++ {
				f := x.newObj(ft, "zip.File")
				nm := x.ndName(fmt.Sprintf("z%d.name", i), nameLen)
				x.setField(f, ft, "Name", nm)
				x.setField(f, ft, "ExternalAttrs", x.M.Fresh(fmt.Sprintf("z%d.attrs", i), 32))
				x.setField(f, ft, "CreatorVersion", x.M.Fresh(fmt.Sprintf("z%d.creator", i), 16))
				x.M.Mem.Store(smt.Add(arr.Ptr(), c64(uint64(8*i))), core.TI64, f.Ptr(), &x.hooks, "zip files")
				x.event("zip.File", nm, x.stringConst(""), c64('0'))
			}
			x.setField(rc, rt, "File", Agg{arr.Ptr(), c64(uint64(n)), c64(uint64(maxEntries))})
			return Agg{rc.Ptr(), x.nilErr()}
		})
	stub("(archive/zip.headerFileInfo).IsDir", "directory iff the name ends in '/' (no external attributes)", func(x *Exec, fr *frame, args []Value, _ *ssa.CallCommon) Value {
		fh := args[0].(Agg)[0].(*smt.Term)
		ht := x.namedType("archive/zip", "FileHeader")
		off, ft := x.fieldOff(ht, "Name")
		nm := x.M.Mem.Load(smt.Add(fh, c64(uint64(off))), x.L.Of(ft), &x.hooks, "zip name").(Agg)
		p, l := nm[0].(*smt.Term), nm[1].(*smt.Term)
		if !x.M.Branch(smt.Ugt(l, c64(0))) {
			return smt.False
		}
		last := x.M.Mem.LoadRaw(smt.Add(p, smt.Sub(l, c64(1))), 1, &x.hooks, "zip name")[0]
		return smt.Eq(last, smt.Const(8, '/'))
	})
	stub("(*archive/zip.ReadCloser).Close", "nil", func(x *Exec, fr *frame, args []Value, _ *ssa.CallCommon) Value { return x.nilErr() })
	stub("(*archive/zip.File).Open", "opaque reader, no error", func(x *Exec, fr *frame, args []Value, _ *ssa.CallCommon) Value {
		return Agg{x.opaqueIface("zip.fileReader"), x.nilErr()}
	})
}
