package main

import (
	"flag"
	"fmt"
	"os"
	"strings"

	"github.com/goplus/llgo/zz_verif_symx/llfe"
)

func extraCmd2(name string, args []string) bool {
	switch name {
	case "ir":
		fs := flag.NewFlagSet("ir", flag.ExitOnError)
		dir := fs.String("dir", ".", "")
		want := fs.String("want", "", "comma separated package paths")
		out := fs.String("out", "", "output .ll prefix")
		abi := fs.Int("abi", 0, "apply llgo's C-ABI transformation with this mode")
		fs.Parse(args)
		w := map[string]bool{}
		for _, p := range strings.Split(*want, ",") {
			w[p] = true
		}
		mods, err := llfe.BuildModules(*dir, []string{"."}, w, true, *abi)
		if err != nil && len(mods) == 0 {
			fatal(err)
		}
		if err != nil {
			fmt.Fprintln(os.Stderr, "note: build ended early:", err)
		}
		for p, m := range mods {
			fn := *out + strings.ReplaceAll(p, "/", "_") + ".ll"
			os.WriteFile(fn, []byte(m.Text), 0644)
			fmt.Printf("%s: %d funcs, %d globals -> %s\n", p, len(m.Funcs), len(m.Globals), fn)
		}
		return true
	}
	return extraCmd3(name, args)
}
