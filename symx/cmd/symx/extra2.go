package main

func extraCmd2(name string, args []string) bool { return false }
