package main

func extraCmd(name string, args []string) bool { return false }
