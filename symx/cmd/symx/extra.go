package main

import (
	"flag"
	"os"
	"strings"

	"github.com/goplus/llgo/zz_verif_symx/gofe"
)

func extraCmd(name string, args []string) bool {
	switch name {
	case "slice":
		cmdSlice(args)
		return true
	}
	return extraCmd2(name, args)
}

func cmdSlice(args []string) {
	fs := flag.NewFlagSet("slice", flag.ExitOnError)
	dir := fs.String("dir", ".", "")
	pkg := fs.String("pkg", ".", "")
	tags := fs.String("tags", "", "")
	out := fs.String("out", "", "")
	pkgname := fs.String("pkgname", "", "")
	skipBodiless := fs.Bool("skip-bodiless", false, "omit functions without body (a stand-in file provides them)")
	var overlays, roots, rewrites multi
	fs.Var(&overlays, "overlay", "virtual=real")
	fs.Var(&roots, "root", "root declaration name")
	fs.Var(&rewrites, "rewrite", "oldimport=newimport")
	fs.Parse(args)
	ov := map[string][]byte{}
	for _, o := range overlays {
		kv := strings.SplitN(o, "=", 2)
		b, err := os.ReadFile(kv[1])
		if err != nil {
			fatal(err)
		}
		ov[kv[0]] = b
	}
	lc := gofe.LoadConfig{Dir: *dir, Pattern: *pkg, Overlay: ov}
	if *tags != "" {
		lc.Tags = strings.Split(*tags, ",")
	}
	rw := map[string]string{}
	for _, r := range rewrites {
		kv := strings.SplitN(r, "=", 2)
		rw[kv[0]] = kv[1]
	}
	b, err := gofe.Slice(lc, roots, rw, *pkgname, *skipBodiless)
	if err != nil {
		fatal(err)
	}
	if err := os.WriteFile(*out, b, 0644); err != nil {
		fatal(err)
	}
}
