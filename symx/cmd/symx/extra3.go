package main

import (
	"encoding/json"
	"flag"
	"fmt"
	"os"
	"sort"
	"strings"
	"time"

	"github.com/goplus/llgo/zz_verif_symx/core"
	"github.com/goplus/llgo/zz_verif_symx/gofe"
	"github.com/goplus/llgo/zz_verif_symx/llfe"
	"github.com/goplus/llgo/zz_verif_symx/smt"
	"github.com/goplus/llgo/zz_verif_symx/tv"
	"golang.org/x/tools/go/ssa"
)

func extraCmd3(name string, args []string) bool {
	if name != "tv" {
		return extraCmd4(name, args)
	}
	fs := flag.NewFlagSet("tv", flag.ExitOnError)
	src := fs.String("src", ".", "directory of the harness package (its own module)")
	pkgpath := fs.String("pkgpath", "", "package path of the harness package")
	only := fs.String("only", "", "comma separated function names (default: all exported)")
	prefix := fs.String("prefix", "", "obligation id prefix")
	out := fs.String("out", "", "result JSON")
	unwind := fs.Int("unwind", 6, "loop bound")
	sliceN := fs.Int("slice-n", 3, "backing store bound for slice/string parameters")
	timeout := fs.Int("timeout-ms", 20000, "solver timeout per query")
	deadline := fs.Int("deadline-s", 300, "per function deadline")
	noRT := fs.Bool("no-runtime", false, "do not load llgo's runtime sources (calls into it become external)")
	dumpIR := fs.String("dump-ir", "", "write the module text here")
	abi := fs.Int("abi", 0, "llgo ABI mode")
	debug := fs.Bool("debug", false, "")
	initFirst := fs.Bool("init-first", false, "run the package initialiser on both sides before each function")
	pkgs := fs.String("pkgs", "", "comma separated additional package paths of the harness program (multi-package)")
	mergeOnly := fs.Bool("merge", false, "check equivalence of multiply-defined mergeable symbols instead of functions")
	fpRange := fs.Bool("assume-fp-range", false, "float->int conversions: assume the value is representable in the result type")
	fs.Parse(args)

	t0 := time.Now()
	wantPkgs := map[string]bool{*pkgpath: true}
	if *pkgs != "" {
		for _, p := range strings.Split(*pkgs, ",") {
			wantPkgs[p] = true
		}
	}
	mods, err := llfe.BuildModules(*src, []string{"."}, wantPkgs, *dumpIR != "", *abi)
	if err != nil {
		fatal(fmt.Errorf("llgo build of harness package failed: %w", err))
	}
	mod := mods[*pkgpath]
	allMods := []*llfe.Module{mod}
	for p, m := range mods {
		if p != *pkgpath {
			allMods = append(allMods, m)
		}
	}
	if *dumpIR != "" {
		os.WriteFile(*dumpIR, []byte(mod.Text), 0644)
	}
	buildS := time.Since(t0).Seconds()
	prog, err := gofe.Load(gofe.LoadConfig{Dir: *src, Pattern: "."})
	if err != nil {
		fatal(err)
	}
	var rtp *gofe.Program
	if !*noRT {
		rtp, err = gofe.Load(gofe.LoadConfig{Dir: repoDir() + "/runtime", Pattern: "./internal/runtime", Tags: []string{"llgo"}})
		if err != nil {
			fatal(err)
		}
	}
	var fns []*ssa.Function
	want := map[string]bool{}
	if *only != "" {
		for _, n := range strings.Split(*only, ",") {
			want[n] = true
		}
	}
	var names []string
	for n, m := range prog.Main.Members {
		if f, ok := m.(*ssa.Function); ok && len(f.Blocks) > 0 && f.Signature.Recv() == nil {
			if (len(want) == 0 && ssaExported(n)) || want[n] {
				names = append(names, n)
			}
		}
	}
	sort.Strings(names)
	for _, n := range names {
		fns = append(fns, prog.Main.Func(n))
	}
	var results []HarnessResult
	if *mergeOnly {
		solver := smt.NewSolver(*timeout)
		solver.AbsDiv = true
		m := core.NewMachine(solver)
		m.Deadline = time.Now().Add(time.Duration(*deadline) * time.Second)
		st := time.Now()
		drv := tv.New(m, prog, rtp, allMods, *pkgpath)
		syms := tv.RunMerge(m, allMods, drv, *prefix)
		solver.Close()
		r := HarnessResult{Name: "merge", Unwind: *unwind}
		r.Paths, r.PathsEnded, r.Obligations, r.Discharged = m.Paths, m.PathsEnded, m.Obligations, m.Discharged
		r.Failures, r.Inconclusive, r.Reached, r.Samples, r.OblIDs = m.Failures, m.Inconclusives, m.Reached, m.Samples, m.OblIDs
		if len(r.Reached) == 0 {
			r.Reached = map[string]int{"merge": 1}
		}
		for _, sres := range syms {
			r.Encoded = append(r.Encoded, sres.Kind+" @"+sres.Symbol+" in "+strings.Join(sres.Modules, ","))
		}
		s := solver.Stats
		r.Queries, r.Sat, r.Unsat, r.Unknown, r.SolverErrors = s.Queries, s.Sat, s.Unsat, s.Unknown, s.Errors
		r.SolverSeconds, r.BySolver, r.WallSeconds = s.Time.Seconds(), s.BySolver, time.Since(st).Seconds()
		results = append(results, r)
		fmt.Fprintf(os.Stderr, "merge: %d multiply-defined symbols, obl=%d/%d fail=%d inconcl=%d\n", len(syms), r.Discharged, r.Obligations, len(r.Failures), len(r.Inconclusive))
		fns = nil
	}
	for _, fn := range fns {
		solver := smt.NewSolver(*timeout)
		solver.AbsDiv = true
		m := core.NewMachine(solver)
		m.Debug = *debug
		m.Deadline = time.Now().Add(time.Duration(*deadline) * time.Second)
		d := tv.New(m, prog, rtp, allMods, *pkgpath)
		d.InitFirst = *initFirst
		if *initFirst {
			d.G.Cfg.RunInit = map[string]bool{}
			for p := range wantPkgs {
				d.G.Cfg.RunInit[p] = true
			}
		}
		d.Prefix = *prefix
		d.SliceN = *sliceN
		d.AssumeFPRange = *fpRange
		d.G.Cfg.Unwind, d.L.Cfg.Unwind = *unwind, *unwind
		d.L.Cfg.CheckCallABI = true
		if d.RT != nil {
			d.RT.Cfg.Unwind = *unwind + 8
		}
		st := time.Now()
		r := HarnessResult{Name: fn.Name(), Unwind: *unwind}
		func() {
			defer func() {
				if e := recover(); e != nil {
					r.Error = fmt.Sprint(e)
					if *debug {
						panic(e)
					}
				}
			}()
			d.RunFunc(fn)
		}()
		solver.Close()
		r.Paths, r.PathsEnded, r.Obligations, r.Discharged = m.Paths, m.PathsEnded, m.Obligations, m.Discharged
		r.Failures, r.Inconclusive, r.Reached, r.Samples, r.OblIDs = m.Failures, m.Inconclusives, m.Reached, m.Samples, m.OblIDs
		for k := range d.G.Encoded {
			r.Encoded = append(r.Encoded, k)
		}
		if d.RT != nil {
			for k := range d.RT.Encoded {
				r.Encoded = append(r.Encoded, k)
			}
		}
		for k := range d.L.Encoded {
			r.Encoded = append(r.Encoded, k)
		}
		sort.Strings(r.Encoded)
		for k := range d.L.Externs {
			r.Stubs = append(r.Stubs, "external call @"+k+" (observable, arbitrary result)")
		}
		sort.Strings(r.Stubs)
		s := solver.Stats
		r.Queries, r.Sat, r.Unsat, r.Unknown, r.SolverErrors = s.Queries, s.Sat, s.Unsat, s.Unknown, s.Errors
		r.SolverSeconds, r.MaxQuerySec, r.BySolver = s.Time.Seconds(), s.MaxTime.Seconds(), s.BySolver
		r.WallSeconds = time.Since(st).Seconds()
		r.Terms = smt.NTerms()
		results = append(results, r)
		fmt.Fprintf(os.Stderr, "%-34s paths=%d obl=%d/%d fail=%d inconcl=%d queries=%d solver=%.1fs wall=%.1fs %s\n", r.Name, r.Paths, r.Discharged, r.Obligations,
			len(r.Failures), len(r.Inconclusive), r.Queries, r.SolverSeconds, r.WallSeconds, r.Error)
	}
	outv := map[string]interface{}{"harnesses": results, "build_s": buildS, "files": prog.Files, "solvers": smt.NewSolver(0).Names(),
		"ir_functions": len(mod.Funcs), "ir_globals": len(mod.Globals)}
	b, _ := json.MarshalIndent(outv, "", " ")
	if *out != "" {
		os.WriteFile(*out, b, 0644)
	} else {
		os.Stdout.Write(b)
	}
	return true
}

func repoDir() string {
	if r := os.Getenv("VERIF_REPO"); r != "" {
		return r
	}
	return "/repo"
}

func ssaExported(n string) bool { return n != "" && n[0] >= 'A' && n[0] <= 'Z' }
