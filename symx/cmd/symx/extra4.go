package main

import (
	"encoding/json"
	"flag"
	"fmt"
	"os"
	"os/exec"
	"path/filepath"
	"sort"
	"strings"
	"time"

	"github.com/goplus/llgo/zz_verif_symx/core"
	"github.com/goplus/llgo/zz_verif_symx/llfe"
	"github.com/goplus/llgo/zz_verif_symx/smt"
)

// cabi: the Go package compiled by llgo (with its C-ABI transformation) and a C
// file compiled by the host C compiler are executed together; every Check*
// function must return true for all arguments, and every call between the two
// sides must agree with the callee's definition in type and ABI attributes.
func extraCmd4(name string, args []string) bool {
	if name != "cabi" {
		return false
	}
	fs := flag.NewFlagSet("cabi", flag.ExitOnError)
	src := fs.String("src", ".", "directory of the Go package (its own module)")
	pkgpath := fs.String("pkgpath", "", "package path")
	cfile := fs.String("cfile", "", "C source of the other side")
	copt := fs.String("copt", "-O0", "optimisation level for the C side")
	only := fs.String("only", "", "comma separated function names")
	prefix := fs.String("prefix", "", "obligation id prefix")
	out := fs.String("out", "", "result JSON")
	abi := fs.Int("abi", 2, "llgo ABI mode")
	timeout := fs.Int("timeout-ms", 20000, "solver timeout per query")
	deadline := fs.Int("deadline-s", 120, "per function deadline")
	debug := fs.Bool("debug", false, "")
	fs.Parse(args)

	t0 := time.Now()
	mods, err := llfe.BuildModules(*src, []string{"."}, map[string]bool{*pkgpath: true}, false, *abi)
	if err != nil {
		fatal(fmt.Errorf("llgo build failed: %w", err))
	}
	gomod := mods[*pkgpath]
	bc := filepath.Join(filepath.Dir(*out), "cside_"+filepath.Base(*out)+".bc")
	if b, err := exec.Command("clang-14", *copt, "-c", "-emit-llvm", "-o", bc, *cfile).CombinedOutput(); err != nil {
		fatal(fmt.Errorf("clang-14: %v: %s", err, b))
	}
	cmod, err := llfe.LoadBitcode(bc, "C:"+filepath.Base(*cfile))
	os.Remove(bc)
	if err != nil {
		fatal(err)
	}
	buildS := time.Since(t0).Seconds()
	want := map[string]bool{}
	for _, n := range strings.Split(*only, ",") {
		if n != "" {
			want[n] = true
		}
	}
	var names []string
	for n, f := range gomod.Funcs {
		short := strings.TrimPrefix(n, *pkgpath+".")
		if f.IsDecl || short == n || !strings.HasPrefix(short, "Check") {
			continue
		}
		if len(want) == 0 || want[short] {
			names = append(names, short)
		}
	}
	sort.Strings(names)
	var results []HarnessResult
	for _, short := range names {
		solver := smt.NewSolver(*timeout)
		m := core.NewMachine(solver)
		m.Debug = *debug
		m.Deadline = time.Now().Add(time.Duration(*deadline) * time.Second)
		st := time.Now()
		r := HarnessResult{Name: short, Unwind: 4}
		var x *llfe.Exec
		func() {
			defer func() {
				if e := recover(); e != nil {
					r.Error = fmt.Sprint(e)
					if *debug {
						panic(e)
					}
				}
			}()
			id := *prefix + short
			f := gomod.Funcs[*pkgpath+"."+short]
			m.Explore(func() {
				x = llfe.NewExec(m, []*llfe.Module{gomod, cmod})
				x.Cfg.CheckCallABI = true
				x.Bridge = allocBridge{m}
				x.Cfg.Unwind = 4
				x.ResetPath()
				var av []core.Value
				for i, p := range f.Params {
					if p.Ty.Kind != llfe.TInt {
						m.Inconclusive(id, "non-integer parameter in a Check function")
						return
					}
					av = append(av, m.Fresh(fmt.Sprintf("p%d", i), p.Ty.Bits))
				}
				var pan string
				var res core.Value
				func() {
					defer func() {
						if e := recover(); e != nil {
							if gp, ok := e.(*llfe.GoPanic); ok {
								pan = gp.Class + ": " + gp.Msg
								return
							}
							panic(e)
						}
					}()
					res = x.CallFunc(*pkgpath+"."+short, av)
				}()
				if pan != "" {
					m.Assert(smt.False, id+".intact", "the call panicked: "+pan, "assert")
				} else {
					ok := res.(*smt.Term)
					if ok.W != 0 {
						ok = smt.Ne(ok, smt.Const(ok.W, 0))
					}
					m.Assert(ok, id+".intact", "a value crossed the Go/C boundary changed", "assert")
				}
				m.Reach(id)
			})
		}()
		solver.Close()
		r.Paths, r.PathsEnded, r.Obligations, r.Discharged = m.Paths, m.PathsEnded, m.Obligations, m.Discharged
		r.Failures, r.Inconclusive, r.Reached, r.Samples, r.OblIDs = m.Failures, m.Inconclusives, m.Reached, m.Samples, m.OblIDs
		if x != nil {
			for k := range x.Encoded {
				r.Encoded = append(r.Encoded, k)
			}
			sort.Strings(r.Encoded)
			for k := range x.Externs {
				r.Stubs = append(r.Stubs, "external call @"+k+" (observable, arbitrary result)")
			}
		}
		s := solver.Stats
		r.Queries, r.Sat, r.Unsat, r.Unknown, r.SolverErrors = s.Queries, s.Sat, s.Unsat, s.Unknown, s.Errors
		r.SolverSeconds, r.MaxQuerySec, r.BySolver = s.Time.Seconds(), s.MaxTime.Seconds(), s.BySolver
		r.WallSeconds = time.Since(st).Seconds()
		results = append(results, r)
		if len(r.Failures) > 0 || len(r.Inconclusive) > 0 || r.Error != "" {
			fmt.Fprintf(os.Stderr, "%-20s paths=%d obl=%d/%d fail=%d inconcl=%d %s\n", r.Name, r.Paths, r.Discharged, r.Obligations, len(r.Failures), len(r.Inconclusive), r.Error)
		}
	}
	fmt.Fprintf(os.Stderr, "cabi: %d functions, build %.1fs, total %.1fs\n", len(results), buildS, time.Since(t0).Seconds())
	outv := map[string]interface{}{"harnesses": results, "build_s": buildS, "files": []string{*src + "/abi.go", *cfile}, "solvers": smt.NewSolver(0).Names(),
		"ir_functions": len(gomod.Funcs) + len(cmod.Funcs)}
	b, _ := json.MarshalIndent(outv, "", " ")
	if *out != "" {
		os.WriteFile(*out, b, 0644)
	} else {
		os.Stdout.Write(b)
	}
	return true
}

// allocBridge models the two allocation entry points of llgo's runtime that
// compiled code calls for escaping locals.
type allocBridge struct{ m *core.Machine }

func (b allocBridge) Call(x *llfe.Exec, name string, fn *llfe.Func, args []core.Value, retTy *llfe.Type) (core.Value, bool) {
	if strings.HasSuffix(name, "/runtime.AllocZ") || strings.HasSuffix(name, "/runtime.AllocU") {
		n := args[0].(*smt.Term)
		if !n.IsConst() {
			return nil, false
		}
		if strings.HasSuffix(name, "Z") {
			return b.m.Mem.Alloc(int(n.Uint()), "AllocZ").Ptr(), true
		}
		return b.m.Mem.AllocSym(int(n.Uint()), "AllocU").Ptr(), true
	}
	return nil, false
}

func (b allocBridge) NilFault() {
	panic(&llfe.GoPanic{Class: "nilptr", Msg: "nil dereference (fault in nil region)"})
}
