// Command symx is the solver-based checker driver.
package main

import (
	"runtime/pprof"
	"encoding/json"
	"flag"
	"fmt"
	"os"
	"sort"
	"strings"
	"time"

	"github.com/goplus/llgo/zz_verif_symx/core"
	"github.com/goplus/llgo/zz_verif_symx/gofe"
	"github.com/goplus/llgo/zz_verif_symx/smt"
)

type HarnessResult struct {
	Name          string              `json:"name"`
	Paths         int                 `json:"paths"`
	PathsEnded    map[string]int      `json:"paths_ended"`
	Obligations   int                 `json:"obligations"`
	Discharged    int                 `json:"discharged"`
	Failures      []core.Failure      `json:"failures"`
	Inconclusive  []core.Inconclusive `json:"inconclusive"`
	Reached       map[string]int      `json:"reached"`
	OblIDs        map[string]*core.OblStat `json:"obl_ids"`
	Encoded       []string            `json:"encoded"`
	Stubs         []string            `json:"stubs"`
	Samples       []string            `json:"samples"`
	Queries       int                 `json:"queries"`
	Sat           int                 `json:"sat"`
	Unsat         int                 `json:"unsat"`
	Unknown       int                 `json:"unknown"`
	SolverErrors  int                 `json:"solver_errors"`
	SolverSeconds float64             `json:"solver_s"`
	MaxQuerySec   float64             `json:"max_query_s"`
	WallSeconds   float64             `json:"wall_s"`
	BySolver      map[string]int      `json:"by_solver"`
	Unwind        int                 `json:"unwind"`
	Terms         int                 `json:"terms"`
	Error         string              `json:"error,omitempty"`
}

func main() {
	if len(os.Args) < 2 {
		fmt.Fprintln(os.Stderr, "usage: symx g|l ...")
		os.Exit(2)
	}
	switch os.Args[1] {
	case "g":
		cmdG(os.Args[2:])
	default:
		if !extraCmd(os.Args[1], os.Args[2:]) {
			fmt.Fprintln(os.Stderr, "unknown subcommand", os.Args[1])
			os.Exit(2)
		}
	}
}

type multi []string

func (m *multi) String() string     { return strings.Join(*m, ",") }
func (m *multi) Set(s string) error { *m = append(*m, s); return nil }

func cmdG(args []string) {
	fs := flag.NewFlagSet("g", flag.ExitOnError)
	dir := fs.String("dir", ".", "directory to load from")
	pkg := fs.String("pkg", ".", "package pattern")
	tags := fs.String("tags", "", "comma separated build tags")
	var overlays multi
	fs.Var(&overlays, "overlay", "virtual=real file mapping (repeatable)")
	prefix := fs.String("prefix", "H_", "harness name prefix")
	only := fs.String("only", "", "run only this harness")
	out := fs.String("out", "", "result JSON file")
	unwind := fs.Int("unwind", 8, "loop unwinding bound")
	timeout := fs.Int("timeout-ms", 20000, "per-query solver timeout")
	maxpaths := fs.Int("maxpaths", 200000, "path limit")
	deadline := fs.Int("deadline-s", 0, "per-harness wall-clock limit")
	list := fs.Bool("list", false, "list harnesses and exit")
	mapRev := fs.Bool("map-reverse", false, "iterate builtin maps in reverse order")
	memcheck := fs.Bool("memcheck", true, "assert every access in bounds")
	debug := fs.Bool("debug", false, "debug output")
	logdir := fs.String("logdir", "", "write every query here")
	recFails := fs.String("recursion-fails", "", "exceeding the recursion bound is a violation of this obligation id")
	maxdepth := fs.Int("maxdepth", 60, "recursion depth bound")
	spurious := fs.Int("spurious", 0, "spurious condition wake-ups allowed per wait")
	schedSteps := fs.Int("sched-steps", 400, "scheduling points per path")
	realSync := fs.Bool("real-sync", false, "execute Go's sync.Mutex/RWMutex from source instead of treating them as no-ops")
	preempt := fs.Int("preempt", -1, "preemption bound of the scheduler (-1 = unbounded)")
	stubs := fs.String("stubs", "", "environment stub set: archive:<namelen>:<entries>")
	cpuprof := fs.String("cpuprofile", "", "write a CPU profile")
	fs.Parse(args)
	if *cpuprof != "" {
		f, _ := os.Create(*cpuprof)
		pprof.StartCPUProfile(f)
		defer pprof.StopCPUProfile()
	}

	ov := map[string][]byte{}
	for _, o := range overlays {
		kv := strings.SplitN(o, "=", 2)
		b, err := os.ReadFile(kv[1])
		if err != nil {
			fatal(err)
		}
		ov[kv[0]] = b
	}
	lc := gofe.LoadConfig{Dir: *dir, Pattern: *pkg, Overlay: ov}
	if *tags != "" {
		lc.Tags = strings.Split(*tags, ",")
	}
	t0 := time.Now()
	prog, err := gofe.Load(lc)
	if err != nil {
		fatal(err)
	}
	hs := prog.Harnesses(*prefix)
	if *list {
		for _, h := range hs {
			fmt.Println(h.Name())
		}
		return
	}
	loadS := time.Since(t0).Seconds()
	var results []HarnessResult
	for _, h := range hs {
		if *only != "" && h.Name() != *only {
			continue
		}
		solver := smt.NewSolver(*timeout)
		solver.LogDir = *logdir
		m := core.NewMachine(solver)
		m.MaxPaths = *maxpaths
		m.MemCheck = *memcheck
		m.Debug = *debug
		if *deadline > 0 {
			m.Deadline = time.Now().Add(time.Duration(*deadline) * time.Second)
		}
		x := gofe.NewExec(prog, m)
		x.Cfg.Unwind = *unwind
		x.Cfg.MapReverse = *mapRev
		x.Cfg.RecursionFails = *recFails
		x.Cfg.MaxDepth = *maxdepth
		x.Cfg.Spurious = *spurious
		x.Cfg.SchedSteps = *schedSteps
		x.Cfg.Preempt = *preempt
		if *realSync {
			for n := range x.Intrinsic {
				if strings.HasPrefix(n, "(*sync.") {
					delete(x.Intrinsic, n)
				}
			}
		}
		if strings.HasPrefix(*stubs, "archive:") {
			var nl, ne int
			fmt.Sscanf(*stubs, "archive:%d:%d", &nl, &ne)
			gofe.RegisterArchiveStubs(x, nl, ne)
		}
		st := time.Now()
		r := HarnessResult{Name: h.Name(), Unwind: *unwind}
		func() {
			defer func() {
				if e := recover(); e != nil {
					r.Error = fmt.Sprint(e)
					if *debug {
						panic(e)
					}
				}
			}()
			x.RunHarness(h)
		}()
		solver.Close()
		r.Paths, r.PathsEnded, r.Obligations, r.Discharged = m.Paths, m.PathsEnded, m.Obligations, m.Discharged
		r.Failures, r.Inconclusive, r.Reached, r.Samples = m.Failures, m.Inconclusives, m.Reached, m.Samples
		r.OblIDs = m.OblIDs
		for k := range x.Encoded {
			r.Encoded = append(r.Encoded, k)
		}
		sort.Strings(r.Encoded)
		for k := range x.Stubs {
			r.Stubs = append(r.Stubs, k)
		}
		sort.Strings(r.Stubs)
		s := solver.Stats
		r.Queries, r.Sat, r.Unsat, r.Unknown, r.SolverErrors = s.Queries, s.Sat, s.Unsat, s.Unknown, s.Errors
		r.SolverSeconds, r.MaxQuerySec, r.BySolver = s.Time.Seconds(), s.MaxTime.Seconds(), s.BySolver
		r.WallSeconds = time.Since(st).Seconds()
		r.Terms = smt.NTerms()
		results = append(results, r)
		fmt.Fprintf(os.Stderr, "%-40s paths=%d obl=%d/%d fail=%d inconcl=%d queries=%d solver=%.1fs wall=%.1fs %s\n", r.Name, r.Paths, r.Discharged, r.Obligations,
			len(r.Failures), len(r.Inconclusive), r.Queries, r.SolverSeconds, r.WallSeconds, r.Error)
	}
	outv := map[string]interface{}{"harnesses": results, "load_s": loadS, "files": prog.Files, "solvers": smt.NewSolver(0).Names()}
	b, _ := json.MarshalIndent(outv, "", " ")
	if *out != "" {
		os.WriteFile(*out, b, 0644)
	} else {
		os.Stdout.Write(b)
	}
}

func fatal(err error) {
	fmt.Fprintln(os.Stderr, "symx:", err)
	os.Exit(2)
}
