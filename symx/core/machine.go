// Package core is the symbolic machine shared by both front ends: path
// condition, decision-replay path exploration, byte memory, obligations.
package core

import (
	"fmt"
	"os"
	"sort"
	"strings"
	"time"

	"github.com/goplus/llgo/zz_verif_symx/smt"
)

// Failure is a violated obligation with the model that violates it.
type Failure struct {
	ID        string
	Msg       string
	Model     map[string]uint64
	Decisions []bool
	Trace     []string
	Kind      string // "assert", "oob", "ub", ...
}

// Inconclusive records something the run could not decide.
type Inconclusive struct {
	ID, Reason string
}

// OblStat counts how an obligation id was decided.
type OblStat struct{ Total, Trivial, Unsat, Sat, Unknown int }

type pathEnd struct{ reason string }

// LongJmp travels up the host stack from a siglongjmp to the frame that called
// sigsetjmp on the same buffer.
type LongJmp struct {
	Buf uint64
	Val *smt.Term
}

type Machine struct {
	S   *smt.Solver
	Mem *Mem

	PC        []*smt.Term
	decisions []bool
	pos       int
	work      [][]bool
	freshN    map[string]int

	feasCache map[string]smt.Result
	lastModel map[string]uint64

	// configuration
	MaxPaths    int
	MaxDecision int // per path
	MemCheck    bool
	MaxFailuresPerID int
	Deadline    time.Time

	// results
	Failures      []Failure
	Inconclusives []Inconclusive
	Paths         int
	PathsEnded    map[string]int
	Obligations   int
	Discharged    int
	Reached       map[string]int
	Trace         []string // per path event trace (external calls etc.)
	Samples       []string
	Assumptions   map[string]bool
	OblIDs        map[string]*OblStat
	Debug         bool
	curDecisions  []bool
	// Derived model entries: name pattern with %d (value of Key under the
	// model) -> value of Val; lets the native replay recompute symbolic choices
	// that are functions of input values (uninterpreted hash).
	Derived []DerivedEntry
}

type DerivedEntry struct {
	Pattern  string
	Key, Val *smt.Term
}

func NewMachine(s *smt.Solver) *Machine {
	return &Machine{S: s, feasCache: map[string]smt.Result{}, MaxPaths: 200000, MaxDecision: 4000,
		OblIDs: map[string]*OblStat{}, PathsEnded: map[string]int{}, Reached: map[string]int{}, Assumptions: map[string]bool{}, MemCheck: true, MaxFailuresPerID: 6}
}

// Fresh returns a fresh variable with a deterministic name (per path).
func (m *Machine) Fresh(prefix string, w int) *smt.Term {
	n := m.freshN[prefix]
	m.freshN[prefix] = n + 1
	name := prefix
	if n > 0 {
		name = fmt.Sprintf("%s#%d", prefix, n)
	}
	if w == 0 {
		return smt.BoolVar(name)
	}
	return smt.Var(name, w)
}

// EndPath aborts the current path.
func (m *Machine) EndPath(reason string) { panic(pathEnd{reason}) }

func (m *Machine) Inconclusive(id, reason string) {
	for _, i := range m.Inconclusives {
		if i.ID == id && i.Reason == reason {
			return
		}
	}
	m.Inconclusives = append(m.Inconclusives, Inconclusive{id, reason})
}

// checkDeadline ends the current path (inconclusive) once the deadline has
// passed; called before every solver query so that a path made of many slow
// queries cannot overrun the budget.
func (m *Machine) checkDeadline() {
	if !m.Deadline.IsZero() && time.Now().After(m.Deadline) {
		m.Inconclusive("explore", "deadline reached inside a path")
		m.EndPath("deadline")
	}
}

// Explore runs body once per feasible path.
func (m *Machine) Explore(body func()) {
	m.work = [][]bool{nil}
	for len(m.work) > 0 {
		if m.Paths >= m.MaxPaths {
			m.Inconclusive("explore", fmt.Sprintf("path limit %d reached with %d pending", m.MaxPaths, len(m.work)))
			return
		}
		if !m.Deadline.IsZero() && time.Now().After(m.Deadline) {
			m.Inconclusive("explore", fmt.Sprintf("deadline reached with %d pending paths", len(m.work)))
			return
		}
		d := m.work[len(m.work)-1]
		m.work = m.work[:len(m.work)-1]
		m.decisions = d
		m.pos = 0
		m.PC = nil
		m.Mem = NewMem(m)
		m.freshN = map[string]int{}
		m.Trace = nil
		m.lastModel = nil
		m.curDecisions = nil
		m.Derived = nil
		m.Paths++
		func() {
			defer func() {
				if r := recover(); r != nil {
					if pe, ok := r.(pathEnd); ok {
						m.PathsEnded[pe.reason]++
						return
					}
					panic(r)
				}
			}()
			body()
			m.PathsEnded["done"]++
		}()
	}
}

func (m *Machine) pcKey(extra *smt.Term) string {
	ids := make([]int, 0, len(m.PC)+1)
	for _, p := range m.PC {
		ids = append(ids, p.ID)
	}
	sort.Ints(ids)
	var sb strings.Builder
	for _, i := range ids {
		fmt.Fprintf(&sb, "%d,", i)
	}
	if extra != nil {
		fmt.Fprintf(&sb, "|%d", extra.ID)
	}
	return sb.String()
}

// Feasible asks whether pc ∧ c is satisfiable (Unknown counts as feasible).
func (m *Machine) Feasible(c *smt.Term) bool {
	if c.IsFalse() {
		return false
	}
	if m.lastModel != nil {
		if v, ok := smt.Eval(c, m.lastModel); ok && v == 1 {
			return true
		}
	}
	k := m.pcKey(c)
	if r, ok := m.feasCache[k]; ok {
		return r != smt.Unsat
	}
	m.checkDeadline()
	r, mod := m.S.Check(append(append([]*smt.Term{}, m.PC...), c), true)
	m.feasCache[k] = r
	if r == smt.Sat && mod != nil {
		m.lastModel = mod.V
	}
	return r != smt.Unsat
}

// Assume adds c to the path condition; ends the path if it becomes infeasible.
func (m *Machine) Assume(c *smt.Term) {
	if c.IsTrue() {
		return
	}
	if c.IsFalse() {
		m.EndPath("assume-false")
	}
	if !m.Feasible(c) {
		m.EndPath("assume-infeasible")
	}
	m.addPC(c)
}

func (m *Machine) addPC(c *smt.Term) {
	if c.IsTrue() {
		return
	}
	if c.Op == smt.OBAnd {
		m.addPC(c.Args[0])
		m.addPC(c.Args[1])
		return
	}
	for _, p := range m.PC {
		if p == c {
			return
		}
	}
	m.PC = append(m.PC, c)
	if m.lastModel != nil {
		if v, ok := smt.Eval(c, m.lastModel); !ok || v != 1 {
			m.lastModel = nil
		}
	}
}

// Branch decides a symbolic condition, forking when both sides are feasible.
func (m *Machine) Branch(c *smt.Term) bool {
	if c.IsTrue() {
		return true
	}
	if c.IsFalse() {
		return false
	}
	var d bool
	if m.pos < len(m.decisions) {
		d = m.decisions[m.pos]
	} else {
		if len(m.decisions) >= m.MaxDecision {
			m.Inconclusive("explore", "per-path decision limit reached")
			m.EndPath("decision-limit")
		}
		var ft, ff bool
		known := false
		if m.lastModel != nil {
			if v, ok := smt.Eval(c, m.lastModel); ok {
				known = true
				if v == 1 {
					ft = true
					ff = m.Feasible(smt.BNot(c))
				} else {
					ff = true
					ft = m.Feasible(c)
				}
			}
		}
		if !known {
			ft = m.Feasible(c)
			if !ft {
				ff = true // pc itself is feasible by construction
			} else {
				ff = m.Feasible(smt.BNot(c))
			}
		}
		switch {
		case ft && ff:
			alt := append(append([]bool{}, m.decisions...), false)
			m.work = append(m.work, alt)
			d = true
		case ft:
			d = true
		case ff:
			d = false
		default:
			m.EndPath("infeasible")
		}
		m.decisions = append(m.decisions, d)
	}
	m.pos++
	if d {
		m.addPC(c)
	} else {
		m.addPC(smt.BNot(c))
	}
	return d
}

// Decisions returns the decision prefix of the current path.
func (m *Machine) Decisions() []bool { return append([]bool{}, m.decisions[:m.pos]...) }

// NDecisions is the number of symbolic decisions taken so far on this path.
func (m *Machine) NDecisions() int { return m.pos }

// Assert checks that c holds on every input reaching here; a violation is
// recorded with its model.  Execution continues under the assumption c.
func (m *Machine) Assert(c *smt.Term, id, msg, kind string) bool {
	if !c.IsTrue() {
		m.checkDeadline()
	}
	m.Obligations++
	st := m.OblIDs[id]
	if st == nil {
		st = &OblStat{}
		m.OblIDs[id] = st
	}
	st.Total++
	if c.IsTrue() {
		m.Discharged++
		st.Trivial++
		return true
	}
	q := append(append([]*smt.Term{}, m.PC...), smt.BNot(c))
	r, mod := m.S.Check(q, true)
	if len(m.Samples) < 3 && r == smt.Unsat {
		s := m.S.LastQuery
		if len(s) > 1500 {
			s = s[:1500] + "…"
		}
		m.Samples = append(m.Samples, id+": "+s)
	}
	switch r {
	case smt.Unsat:
		m.Discharged++
		st.Unsat++
		return true // pc already implies c: adding it would only bloat the path condition
	case smt.Unknown:
		st.Unknown++
		m.Inconclusive(id, "solver unknown/timeout: "+msg)
		m.addPC(c)
		return true
	}
	st.Sat++
	f := Failure{ID: id, Msg: msg, Kind: kind, Decisions: m.Decisions(), Trace: append([]string{}, m.Trace...)}
	if mod != nil {
		f.Model = mod.V
		for _, d := range m.Derived {
			k, ok1 := smt.Eval(d.Key, mod.V)
			v, ok2 := smt.Eval(d.Val, mod.V)
			if ok1 && ok2 {
				f.Model[fmt.Sprintf(d.Pattern, k)] = v
			}
		}
	}
	dup := 0
	for _, o := range m.Failures {
		if o.ID == f.ID {
			dup++
		}
	}
	if dup < m.MaxFailuresPerID {
		m.Failures = append(m.Failures, f)
	}
	if m.Debug {
		fmt.Fprintf(os.Stderr, "FAIL %s: %s model=%v\n", id, msg, f.Model)
	}
	// continue on the side where c holds, if any
	if !m.Feasible(c) {
		m.EndPath("assert-failed")
	}
	m.addPC(c)
	return false
}

// Reach records that a program point is reachable on this path (vacuity
// witness): pc is satisfiable by construction of Branch/Assume.
func (m *Machine) Reach(name string) { m.Reached[name]++ }

// ModelValue evaluates t in the given model.
func ModelValue(t *smt.Term, model map[string]uint64) (uint64, bool) { return smt.Eval(t, model) }

// Concretize returns a constant value for t if pc forces a unique value known
// syntactically (t constant), else nil.
func Concrete(t *smt.Term) (uint64, bool) {
	if t.IsConst() {
		return t.Uint(), true
	}
	return 0, false
}
