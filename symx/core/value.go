package core

import (
	"fmt"

	"github.com/goplus/llgo/zz_verif_symx/smt"
)

// Value is *smt.Term (scalar) or Agg (aggregate) — nil for "no value".
type Value interface{}
type Agg []Value

type Kind uint8

const (
	KBool Kind = iota
	KInt       // also floats (bit patterns) and pointers
	KStruct
	KArray
)

// Type is the machine-level layout of a value.
type Type struct {
	Kind   Kind
	Size   int
	Align  int
	Bits   int // KInt
	Fields []Field
	Elem   *Type
	N      int
	Name   string
}

type Field struct {
	Off int
	T   *Type
}

var (
	TBool = &Type{Kind: KBool, Size: 1, Align: 1, Name: "bool"}
	TI8   = &Type{Kind: KInt, Size: 1, Align: 1, Bits: 8, Name: "i8"}
	TI16  = &Type{Kind: KInt, Size: 2, Align: 2, Bits: 16, Name: "i16"}
	TI32  = &Type{Kind: KInt, Size: 4, Align: 4, Bits: 32, Name: "i32"}
	TI64  = &Type{Kind: KInt, Size: 8, Align: 8, Bits: 64, Name: "i64"}
)

func IntType(bits int) *Type {
	switch bits {
	case 8:
		return TI8
	case 16:
		return TI16
	case 32:
		return TI32
	case 64:
		return TI64
	}
	sz := (bits + 7) / 8
	al := 1
	for al < sz && al < 8 {
		al *= 2
	}
	return &Type{Kind: KInt, Size: sz, Align: al, Bits: bits, Name: fmt.Sprintf("i%d", bits)}
}

func StructOf(name string, fs ...*Type) *Type {
	t := &Type{Kind: KStruct, Align: 1, Name: name}
	off := 0
	for _, f := range fs {
		off = (off + f.Align - 1) / f.Align * f.Align
		t.Fields = append(t.Fields, Field{off, f})
		off += f.Size
		if f.Align > t.Align {
			t.Align = f.Align
		}
	}
	t.Size = (off + t.Align - 1) / t.Align * t.Align
	return t
}

func ArrayOf(n int, e *Type) *Type {
	return &Type{Kind: KArray, Size: n * e.Size, Align: e.Align, Elem: e, N: n, Name: fmt.Sprintf("[%d]%s", n, e.Name)}
}

// Zero value of a type.
func Zero(t *Type) Value {
	switch t.Kind {
	case KBool:
		return smt.False
	case KInt:
		return smt.Const(t.Bits, 0)
	case KStruct:
		a := make(Agg, len(t.Fields))
		for i, f := range t.Fields {
			a[i] = Zero(f.T)
		}
		return a
	case KArray:
		a := make(Agg, t.N)
		for i := range a {
			a[i] = Zero(t.Elem)
		}
		return a
	}
	panic("Zero")
}

// AccessSize is the number of bytes a load / store of a value of type t touches:
// integers occupy ceil(bits/8) bytes and aggregates are accessed member-wise, so
// tail padding is not part of the access (LLVM LangRef; for Go types this only
// differs from Size by the tail padding of structs).
func AccessSize(t *Type) int {
	switch t.Kind {
	case KBool:
		return 1
	case KInt:
		return (t.Bits + 7) / 8
	case KStruct:
		n := 0
		for _, f := range t.Fields {
			if a := AccessSize(f.T); a > 0 && f.Off+a > n {
				n = f.Off + a
			}
		}
		return n
	case KArray:
		if t.N == 0 {
			return 0
		}
		return (t.N-1)*t.Elem.Size + AccessSize(t.Elem)
	}
	return t.Size
}

func clampEnd(end, n int) int {
	if end > n {
		return n
	}
	return end
}

// ToBytes serialises v (of type t) into AccessSize(t) .. t.Size bytes (as many
// as out holds); padding is zero.
func ToBytes(t *Type, v Value, out []*smt.Term) {
	switch t.Kind {
	case KBool:
		out[0] = smt.Ite(v.(*smt.Term), smt.Const(8, 1), smt.Const(8, 0))
	case KInt:
		x := v.(*smt.Term)
		if x.W != t.Bits {
			panic(fmt.Sprintf("ToBytes: %s got width %d", t.Name, x.W))
		}
		if t.Bits%8 != 0 {
			x = smt.ZExt(x, (t.Bits+7)/8*8)
		}
		copy(out, BytesFromInt(x))
	case KStruct:
		a := v.(Agg)
		for i := range out[:clampEnd(t.Size, len(out))] {
			if out[i] == nil {
				out[i] = zeroByte
			}
		}
		for i, f := range t.Fields {
			if f.T.Size == 0 {
				continue
			}
			ToBytes(f.T, a[i], out[f.Off:clampEnd(f.Off+f.T.Size, len(out))])
		}
	case KArray:
		a := v.(Agg)
		for i := 0; i < t.N; i++ {
			ToBytes(t.Elem, a[i], out[i*t.Elem.Size:clampEnd((i+1)*t.Elem.Size, len(out))])
		}
	}
}

// FromBytes deserialises a value of type t.
func FromBytes(t *Type, bs []*smt.Term) Value {
	switch t.Kind {
	case KBool:
		return smt.Ne(bs[0], smt.Const(8, 0))
	case KInt:
		x := IntFromBytes(bs[:(t.Bits+7)/8])
		if t.Bits%8 != 0 {
			x = smt.Extract(x, t.Bits-1, 0)
		}
		return x
	case KStruct:
		a := make(Agg, len(t.Fields))
		for i, f := range t.Fields {
			if f.T.Size == 0 {
				a[i] = Zero(f.T)
				continue
			}
			a[i] = FromBytes(f.T, bs[f.Off:clampEnd(f.Off+f.T.Size, len(bs))])
		}
		return a
	case KArray:
		a := make(Agg, t.N)
		for i := 0; i < t.N; i++ {
			a[i] = FromBytes(t.Elem, bs[i*t.Elem.Size:clampEnd((i+1)*t.Elem.Size, len(bs))])
		}
		return a
	}
	panic("FromBytes")
}

// NilFault is raised (as a Go panic value of the host) when an access hits the
// nil region; front ends translate it.
type NilFault struct{ Addr *smt.Term }

// Access describes what happens on invalid pointers.
type AccessHooks struct {
	OnNil  func(addr *smt.Term) // must not return (panic / EndPath)
	OnWild func(addr *smt.Term, what string)
}

// Load reads a typed value through pointer p.
func (mm *Mem) Load(p *smt.Term, t *Type, h *AccessHooks, what string) Value {
	if t.Size == 0 {
		return Zero(t)
	}
	ts := mm.targets(p, h, what)
	var res Value
	for i := len(ts) - 1; i >= 0; i-- {
		tg := ts[i]
		v := FromBytes(t, mm.LoadBytes(tg.A, tg.Off, AccessSize(t), what))
		if res == nil {
			res = v
		} else {
			res = IteValue(tg.Guard, v, res)
		}
	}
	return res
}

// Store writes a typed value through pointer p.
func (mm *Mem) Store(p *smt.Term, t *Type, v Value, h *AccessHooks, what string) {
	if t.Size == 0 {
		return
	}
	bs := make([]*smt.Term, AccessSize(t))
	ToBytes(t, v, bs)
	mm.StoreRaw(p, bs, h, what)
}

func (mm *Mem) StoreRaw(p *smt.Term, bs []*smt.Term, h *AccessHooks, what string) {
	ts := mm.targets(p, h, what)
	if len(ts) == 1 {
		mm.StoreBytes(ts[0].A, ts[0].Off, bs, smt.True, what)
		return
	}
	for _, tg := range ts {
		mm.StoreBytes(tg.A, tg.Off, bs, tg.Guard, what)
	}
}

// LoadRaw reads n raw bytes.
func (mm *Mem) LoadRaw(p *smt.Term, n int, h *AccessHooks, what string) []*smt.Term {
	if n == 0 {
		return nil
	}
	ts := mm.targets(p, h, what)
	var res []*smt.Term
	for i := len(ts) - 1; i >= 0; i-- {
		tg := ts[i]
		bs := mm.LoadBytes(tg.A, tg.Off, n, what)
		if res == nil {
			res = bs
		} else {
			for j := range res {
				res[j] = smt.Ite(tg.Guard, bs[j], res[j])
			}
		}
	}
	return res
}

// targets resolves p, forking off nil / invalid targets through the hooks.
// enumerate lists the values a pointer term can take under the path condition
// (at most max; ok=false when there are more or the solver cannot tell).
func (mm *Mem) enumerate(p *smt.Term, max int) (vals []uint64, ok bool) {
	var excl []*smt.Term
	for len(vals) <= max {
		q := append(append([]*smt.Term{}, mm.m.PC...), excl...)
		// force p to appear in the query so that the model assigns it
		probe := mm.m.Fresh("ptrprobe", 64)
		q = append(q, smt.Eq(probe, p))
		r, mod := mm.m.S.Check(q, true)
		if r == smt.Unsat {
			return vals, true
		}
		if r != smt.Sat || mod == nil {
			return nil, false
		}
		v, have := mod.V[probe.Name]
		if !have {
			return nil, false
		}
		vals = append(vals, v)
		excl = append(excl, smt.Ne(p, smt.Const(64, v)))
	}
	return nil, false
}

func (mm *Mem) targets(p *smt.Term, h *AccessHooks, what string) []Target {
	all := mm.Resolve(p)
	if len(all) == 1 && all[0].A == nil && !all[0].Addr.IsConst() {
		// pointer assembled from memory bytes (e.g. written through a symbolic
		// offset): enumerate its few possible values with the solver
		if vals, ok := mm.enumerate(p, 8); ok && len(vals) > 0 {
			all = nil
			for _, v := range vals {
				c := smt.Const(64, v)
				tg := Target{Guard: smt.Eq(p, c), Addr: c}
				if a := mm.Find(v); a != nil {
					tg.A, tg.Off = a, smt.Const(64, v-a.Base)
				}
				all = append(all, tg)
			}
		}
	}
	var ok []Target
	for _, tg := range all {
		if tg.A != nil && !tg.A.Freed {
			ok = append(ok, tg)
			continue
		}
		// invalid / nil target: decide whether this guard is taken
		if mm.m.Branch(tg.Guard) {
			c, isC := Concrete(tg.Addr)
			if !isC && h != nil && h.OnNil != nil {
				// symbolic address outside every allocation: inside the nil
				// region it faults like a nil dereference
				if !mm.m.Feasible(smt.Uge(tg.Addr, smt.Const(64, NilLimit))) || mm.m.Branch(smt.Ult(tg.Addr, smt.Const(64, NilLimit))) {
					h.OnNil(tg.Addr)
					mm.m.EndPath("nil-hook-returned")
				}
			}
			if h != nil && h.OnNil != nil && (!isC || c < NilLimit) {
				if !isC {
					// symbolic unresolvable pointer
					if h.OnWild != nil {
						h.OnWild(tg.Addr, what)
					}
					mm.m.Inconclusive("mem.ptr", what+": unresolvable symbolic pointer "+short(tg.Addr))
					mm.m.EndPath("wild-pointer")
				}
				h.OnNil(tg.Addr)
				mm.m.EndPath("nil-hook-returned")
			}
			if h != nil && h.OnWild != nil {
				h.OnWild(tg.Addr, what)
			}
			mm.m.Assert(smt.False, "mem.wild", what+": access through invalid pointer "+short(tg.Addr), "oob")
			mm.m.EndPath("wild-pointer")
		}
	}
	if len(ok) == 0 {
		mm.m.EndPath("no-target")
	}
	// several possible targets: fork on the guards so that every access (and
	// its range check) happens only on the paths where it really takes place
	for len(ok) > 1 {
		if mm.m.Branch(ok[0].Guard) {
			return ok[:1]
		}
		ok = ok[1:]
	}
	return ok
}

func short(t *smt.Term) string {
	s := t.String()
	if len(s) > 120 {
		s = s[:120] + "…"
	}
	return s
}

// IteValue builds ite over structurally equal values.
func IteValue(c *smt.Term, a, b Value) Value {
	switch x := a.(type) {
	case *smt.Term:
		return smt.Ite(c, x, b.(*smt.Term))
	case Agg:
		y := b.(Agg)
		r := make(Agg, len(x))
		for i := range x {
			r[i] = IteValue(c, x[i], y[i])
		}
		return r
	case nil:
		return nil
	}
	panic("IteValue")
}

// EqValue is structural equality of two values as a Bool term.
func EqValue(a, b Value) *smt.Term {
	switch x := a.(type) {
	case *smt.Term:
		return smt.Eq(x, b.(*smt.Term))
	case Agg:
		y := b.(Agg)
		r := smt.True
		for i := range x {
			r = smt.BAnd(r, EqValue(x[i], y[i]))
		}
		return r
	}
	panic("EqValue")
}

// Memcpy copies n (symbolic, ≤ maxN) bytes; move=true gives memmove semantics,
// otherwise overlap is reported through onOverlap.
func (mm *Mem) Memcpy(dst, src, n *smt.Term, maxN int, move bool, h *AccessHooks, what string, onOverlap func(cond *smt.Term)) {
	if n.IsConst() {
		k := int(n.Uint())
		if k == 0 {
			return
		}
		if n.Uint() > 1<<22 {
			mm.m.Assert(smt.False, "mem.oob", what+": huge copy length", "oob")
			mm.m.EndPath("oob")
		}
		if !move && onOverlap != nil {
			ov := smt.BAnd(smt.Ult(smt.Sub(dst, src), n), smt.True)
			ov = smt.BOr(ov, smt.Ult(smt.Sub(src, dst), n))
			onOverlap(ov)
		}
		bs := mm.LoadRaw(src, k, h, what+" (src)")
		mm.StoreRaw(dst, bs, h, what+" (dst)")
		return
	}
	// symbolic length: bounded by maxN
	mm.m.Assert(smt.Ule(n, smt.Const(64, uint64(maxN))), "unwind.memcpy", fmt.Sprintf("%s: copy length may exceed bound %d", what, maxN), "unwind")
	if !move && onOverlap != nil {
		ov := smt.BOr(smt.Ult(smt.Sub(dst, src), n), smt.Ult(smt.Sub(src, dst), n))
		ov = smt.BAnd(ov, smt.Ne(n, smt.Const(64, 0)))
		onOverlap(ov)
	}
	if maxN == 0 {
		return
	}
	// nothing to do when n == 0 (pointers may be invalid then)
	if !mm.m.Branch(smt.Ne(n, smt.Const(64, 0))) {
		return
	}
	st := mm.targets(src, h, what+" (src)")
	dt := mm.targets(dst, h, what+" (dst)")
	if len(st) == 1 && len(dt) == 1 {
		sa, da := st[0], dt[0]
		inS := smt.BAnd(smt.Ule(sa.Off, smt.Const(64, uint64(sa.A.Size))), smt.Ule(n, smt.Sub(smt.Const(64, uint64(sa.A.Size)), sa.Off)))
		inD := smt.BAnd(smt.Ule(da.Off, smt.Const(64, uint64(da.A.Size))), smt.Ule(n, smt.Sub(smt.Const(64, uint64(da.A.Size)), da.Off)))
		mm.m.Assert(inS, "mem.oob", fmt.Sprintf("%s: source range outside %s (size %d)", what, sa.A.Name, sa.A.Size), "oob")
		mm.m.Assert(inD, "mem.oob", fmt.Sprintf("%s: destination range outside %s (size %d)", what, da.A.Name, da.A.Size), "oob")
		srcB := make([]*smt.Term, 0, maxN)
		for i := 0; i < maxN; i++ {
			b := mm.peek(sa.A, smt.Add(sa.Off, smt.Const(64, uint64(i))))
			if b == nil {
				break
			}
			srcB = append(srcB, b)
		}
		for i, b := range srcB {
			mm.poke(da.A, smt.Add(da.Off, smt.Const(64, uint64(i))), b, smt.Ugt(n, smt.Const(64, uint64(i))))
		}
		return
	}
	// general case: fork on the length
	srcB := make([]*smt.Term, maxN)
	for i := 0; i < maxN; i++ {
		if !mm.m.Branch(smt.Ugt(n, smt.Const(64, uint64(i)))) {
			srcB = srcB[:i]
			break
		}
		srcB[i] = mm.LoadRaw(smt.Add(src, smt.Const(64, uint64(i))), 1, h, what+" (src)")[0]
	}
	mm.StoreRaw(dst, srcB, h, what+" (dst)")
}

// peek reads one byte without a range assertion (nil when certainly outside).
func (mm *Mem) peek(a *Alloc, off *smt.Term) *smt.Term {
	if off.IsConst() {
		if off.Uint() >= uint64(a.Size) {
			return nil
		}
		return a.byteAt(int(off.Uint()))
	}
	cs := candidates(a, off, 1)
	if len(cs) == 0 {
		return nil
	}
	return selectTree(a, off, cs, 0)
}

// poke conditionally writes one byte without a range assertion.
func (mm *Mem) poke(a *Alloc, off *smt.Term, b *smt.Term, g *smt.Term) {
	if a.ReadOnly {
		mm.m.Assert(smt.BNot(g), "mem.rostore", "store to read-only "+a.Name, "oob")
		return
	}
	a.own()
	if off.IsConst() {
		if off.Uint() < uint64(a.Size) {
			o := int(off.Uint())
			a.Bytes[o] = smt.Ite(g, b, a.byteAt(o))
		}
		return
	}
	for _, o := range candidates(a, off, 1) {
		hit := smt.BAnd(g, smt.Eq(off, smt.Const(64, uint64(o))))
		a.Bytes[o] = smt.Ite(hit, b, a.byteAt(o))
	}
}
