package core

import (
	"fmt"
	"sort"

	"github.com/goplus/llgo/zz_verif_symx/smt"
)

// NilLimit is the size of the unmapped region at address 0 (llgo's
// maxDirectDerefSize assumption; 1 MiB).
const NilLimit = 1 << 20

type Alloc struct {
	Base     uint64
	Size     int
	Bytes    []*smt.Term
	Name     string
	ReadOnly bool
	Freed    bool
	Huge     bool // stands for an allocation larger than modelled; out-of-range accesses are inconclusive
	Tag      interface{} // front-end data (e.g. function for code addresses)
	cow      bool        // Bytes shared with a snapshot: copy before writing
}

type Mem struct {
	m      *Machine
	allocs []*Alloc // sorted by Base
	next   uint64
	NAlloc int
	OnOOB  func(what string)
}

func NewMem(m *Machine) *Mem { return &Mem{m: m, next: 0x10000000} }

var zeroByte = smt.Const(8, 0)

// Alloc creates a zeroed allocation of concrete size.
func (mm *Mem) Alloc(size int, name string) *Alloc {
	return mm.AllocRaw(size, name) // nil bytes read as zero
}

// AllocRaw creates an allocation whose bytes are nil (must be filled by caller).
func (mm *Mem) AllocRaw(size int, name string) *Alloc {
	if size < 0 || size > 1<<22 {
		panic(fmt.Sprintf("core.Alloc: size %d", size))
	}
	a := &Alloc{Base: mm.next, Size: size, Bytes: make([]*smt.Term, size), Name: name}
	adv := uint64(size) + 256 // red zone
	adv = (adv + 63) &^ 63
	mm.next += adv
	mm.allocs = append(mm.allocs, a)
	mm.NAlloc++
	return a
}

// AllocSym creates an allocation filled with fresh symbolic bytes.
func (mm *Mem) AllocSym(size int, name string) *Alloc {
	a := mm.AllocRaw(size, name)
	for i := range a.Bytes {
		a.Bytes[i] = mm.m.Fresh(fmt.Sprintf("%s[%d]", name, i), 8)
	}
	return a
}

func (a *Alloc) Ptr() *smt.Term { return smt.Const(64, a.Base) }

// Find returns the allocation containing address c (end inclusive).
func (mm *Mem) Find(c uint64) *Alloc {
	i := sort.Search(len(mm.allocs), func(i int) bool { return mm.allocs[i].Base > c })
	if i == 0 {
		return nil
	}
	a := mm.allocs[i-1]
	if c <= a.Base+uint64(a.Size) {
		return a
	}
	return nil
}

// FindNear is Find, extended to addresses in the red zone just below an
// allocation (a symbolic base plus a constant part that is slightly negative
// relative to the allocation, e.g. p + len - 1).
func (mm *Mem) FindNear(c uint64) *Alloc {
	if a := mm.Find(c); a != nil {
		return a
	}
	i := sort.Search(len(mm.allocs), func(i int) bool { return mm.allocs[i].Base > c })
	if i < len(mm.allocs) && mm.allocs[i].Base-c <= 192 {
		return mm.allocs[i]
	}
	return nil
}

// Target is one possible resolution of a pointer.
type Target struct {
	Guard *smt.Term
	A     *Alloc    // nil = nil-region / invalid
	Off   *smt.Term // 64-bit offset into A
	Addr  *smt.Term
}

// Resolve splits a pointer term into guarded (allocation, offset) targets.
func (mm *Mem) Resolve(p *smt.Term) []Target {
	var out []Target
	var rec func(p *smt.Term, g *smt.Term, depth int)
	rec = func(p *smt.Term, g *smt.Term, depth int) {
		if g.IsFalse() {
			return
		}
		if p.Op == smt.OIte && depth < 12 {
			rec(p.Args[1], smt.BAnd(g, p.Args[0]), depth+1)
			rec(p.Args[2], smt.BAnd(g, smt.BNot(p.Args[0])), depth+1)
			return
		}
		if q, cnd, a, b := liftIteAddend(p); q && depth < 12 {
			rec(a, smt.BAnd(g, cnd), depth+1)
			rec(b, smt.BAnd(g, smt.BNot(cnd)), depth+1)
			return
		}
		base, c := smt.SplitAdd(p)
		if base == nil {
			a := mm.Find(c)
			if a == nil {
				out = append(out, Target{Guard: g, A: nil, Addr: p})
				return
			}
			out = append(out, Target{Guard: g, A: a, Off: smt.Const(64, c-a.Base), Addr: p})
			return
		}
		// base + c with symbolic base: distribute over ite bases
		if base.Op == smt.OIte && depth < 12 {
			k := smt.Const(64, c)
			rec(smt.Add(base.Args[1], k), smt.BAnd(g, base.Args[0]), depth+1)
			rec(smt.Add(base.Args[2], k), smt.BAnd(g, smt.BNot(base.Args[0])), depth+1)
			return
		}
		a := mm.FindNear(c)
		if a == nil {
			out = append(out, Target{Guard: g, A: nil, Addr: p})
			return
		}
		out = append(out, Target{Guard: g, A: a, Off: smt.Add(base, smt.Const(64, c-a.Base)), Addr: p})
	}
	rec(p, smt.True, 0)
	return out
}

// liftIteAddend finds an ite among the addends of a sum (pointer = ite(nil, 0,
// base) + offset) and returns the two sums with the ite resolved.
func liftIteAddend(p *smt.Term) (ok bool, cond, a, b *smt.Term) {
	if p.Op != smt.OAdd {
		return
	}
	var addends []*smt.Term
	var flat func(t *smt.Term, d int)
	flat = func(t *smt.Term, d int) {
		if t.Op == smt.OAdd && d < 8 {
			flat(t.Args[0], d+1)
			flat(t.Args[1], d+1)
			return
		}
		addends = append(addends, t)
	}
	flat(p, 0)
	for i, t := range addends {
		if t.Op == smt.OIte && (t.Args[1].IsConst() || t.Args[2].IsConst()) {
			sa, sb := t.Args[1], t.Args[2]
			for j, o := range addends {
				if j != i {
					sa, sb = smt.Add(sa, o), smt.Add(sb, o)
				}
			}
			return true, t.Args[0], sa, sb
		}
	}
	return
}

// stride guesses the stride of a symbolic offset term.
func stride(off *smt.Term) (uint64, uint64) {
	base, c := smt.SplitAdd(off)
	if base == nil {
		return 0, c
	}
	s := uint64(1)
	switch base.Op {
	case smt.OMul:
		if base.Args[1].IsConst() && base.Args[1].Uint() != 0 {
			s = base.Args[1].Uint()
		}
	case smt.OShl:
		if base.Args[1].IsConst() && base.Args[1].Uint() < 20 {
			s = 1 << base.Args[1].Uint()
		}
	}
	// i*s mod 2^64 is always a multiple of the largest power of two dividing s
	s = s & -s
	return s, c
}

// candidates lists the concrete offsets an n-byte access at off may use.
func candidates(a *Alloc, off *smt.Term, n int) []int {
	s, c := stride(off)
	var out []int
	if s == 0 {
		return []int{int(c)}
	}
	for o := 0; o+n <= a.Size; o++ {
		if (uint64(o)-c)%s == 0 {
			out = append(out, o)
		}
	}
	return out
}

// LoadBytes reads n bytes (little endian, result[0] lowest) at a+off.
func (mm *Mem) LoadBytes(a *Alloc, off *smt.Term, n int, what string) []*smt.Term {
	out := make([]*smt.Term, n)
	if n == 0 {
		return out
	}
	if off.IsConst() {
		o := int(off.Uint())
		if off.Uint() > uint64(a.Size) || o+n > a.Size {
			if mm.OnOOB != nil {
				mm.OnOOB(what)
			}
			mm.m.Assert(smt.False, "mem.oob", fmt.Sprintf("%s: read of %d bytes at offset %d of %s (size %d)", what, n, int64(off.Uint()), a.Name, a.Size), "oob")
			mm.m.EndPath("oob")
		}
		for j := 0; j < n; j++ {
			out[j] = a.byteAt(o + j)
		}
		return out
	}
	mm.inRange(a, off, n, what)
	cs := candidates(a, off, n)
	if len(cs) == 0 {
		mm.m.EndPath("oob")
	}
	for j := 0; j < n; j++ {
		out[j] = selectTree(a, off, cs, j)
	}
	return out
}

// selectTree builds a balanced decision tree over the candidate offsets
// (in-range has been asserted by the caller); equal subtrees collapse.
func selectTree(a *Alloc, off *smt.Term, cs []int, j int) *smt.Term {
	if len(cs) == 1 {
		return a.byteAt(cs[0] + j)
	}
	if len(cs) <= 3 {
		v := a.byteAt(cs[len(cs)-1] + j)
		for k := len(cs) - 2; k >= 0; k-- {
			v = smt.Ite(smt.Eq(off, smt.Const(64, uint64(cs[k]))), a.byteAt(cs[k]+j), v)
		}
		return v
	}
	mid := len(cs) / 2
	l := selectTree(a, off, cs[:mid], j)
	r := selectTree(a, off, cs[mid:], j)
	if l == r {
		return l
	}
	return smt.Ite(smt.Ult(off, smt.Const(64, uint64(cs[mid]))), l, r)
}

// own makes the byte slice private before a write.
func (a *Alloc) own() {
	if a.cow {
		a.Bytes = append([]*smt.Term(nil), a.Bytes...)
		a.cow = false
	}
}

// MemSnap is a copy-on-write snapshot of a memory.
type MemSnap struct {
	allocs []*Alloc
	next   uint64
	nalloc int
}

// Snapshot freezes the current memory contents.
func (mm *Mem) Snapshot() *MemSnap {
	s := &MemSnap{next: mm.next, nalloc: mm.NAlloc}
	for _, a := range mm.allocs {
		c := *a
		c.cow = true
		a.cow = true
		s.allocs = append(s.allocs, &c)
	}
	return s
}

// Restore replaces the memory by a copy of the snapshot and returns the
// mapping from snapshot allocations to the fresh ones (by base address).
func (mm *Mem) Restore(s *MemSnap, copyTag func(interface{}) interface{}) map[uint64]*Alloc {
	mm.allocs = make([]*Alloc, len(s.allocs))
	m := make(map[uint64]*Alloc, len(s.allocs))
	for i, a := range s.allocs {
		c := *a
		c.cow = true
		if copyTag != nil && c.Tag != nil {
			c.Tag = copyTag(c.Tag)
		}
		mm.allocs[i] = &c
		m[c.Base] = &c
	}
	mm.next = s.next
	mm.NAlloc = s.nalloc
	return m
}

func (a *Alloc) byteAt(i int) *smt.Term {
	b := a.Bytes[i]
	if b == nil {
		return zeroByte
	}
	return b
}

func (mm *Mem) inRange(a *Alloc, off *smt.Term, n int, what string) {
	if a.Huge {
		if mm.m.Feasible(smt.Ugt(off, smt.Const(64, uint64(a.Size-n)))) {
			mm.m.Inconclusive("mem.huge", what+": access into an allocation larger than the modelled bound")
			mm.m.EndPath("huge")
		}
		return
	}
	if a.Size-n < 0 {
		mm.m.Assert(smt.False, "mem.oob", fmt.Sprintf("%s: %d-byte access to %s (size %d)", what, n, a.Name, a.Size), "oob")
		mm.m.EndPath("oob")
	}
	c := smt.Ule(off, smt.Const(64, uint64(a.Size-n)))
	if mm.m.MemCheck {
		mm.m.Assert(c, "mem.oob", fmt.Sprintf("%s: %d-byte access outside %s (size %d)", what, n, a.Name, a.Size), "oob")
	} else {
		mm.m.Assume(c)
	}
}

// StoreBytes writes bytes at a+off under guard g (g true for plain stores).
func (mm *Mem) StoreBytes(a *Alloc, off *smt.Term, bs []*smt.Term, g *smt.Term, what string) {
	n := len(bs)
	if n == 0 {
		return
	}
	if a.ReadOnly {
		mm.m.Assert(smt.BNot(g), "mem.rostore", what+": store to read-only "+a.Name, "oob")
		return
	}
	if off.IsConst() {
		o := int(off.Uint())
		if off.Uint() > uint64(a.Size) || o+n > a.Size {
			mm.m.Assert(smt.BNot(g), "mem.oob", fmt.Sprintf("%s: write of %d bytes at offset %d of %s (size %d)", what, n, int64(off.Uint()), a.Name, a.Size), "oob")
			if g.IsTrue() {
				mm.m.EndPath("oob")
			}
			return
		}
		a.own()
		for j := 0; j < n; j++ {
			a.Bytes[o+j] = smt.Ite(g, bs[j], a.byteAt(o+j))
		}
		return
	}
	if g.IsTrue() {
		mm.inRange(a, off, n, what)
	}
	cs := candidates(a, off, n)
	a.own()
	for _, o := range cs {
		hit := smt.BAnd(g, smt.Eq(off, smt.Const(64, uint64(o))))
		for j := 0; j < n; j++ {
			a.Bytes[o+j] = smt.Ite(hit, bs[j], a.byteAt(o+j))
		}
	}
}

// IntFromBytes concatenates little-endian bytes into one term.
func IntFromBytes(bs []*smt.Term) *smt.Term {
	v := bs[len(bs)-1]
	for i := len(bs) - 2; i >= 0; i-- {
		v = smt.Concat(v, bs[i])
	}
	return v
}

// BytesFromInt splits a term into little-endian bytes.
func BytesFromInt(v *smt.Term) []*smt.Term {
	n := v.W / 8
	out := make([]*smt.Term, n)
	for i := 0; i < n; i++ {
		out[i] = smt.ExtractByte(v, 8*i+7, 8*i)
	}
	return out
}
