#!/bin/bash
# Runs the repository's pinned baseline suite (command from /root/.vp/BASELINE.json)
# on /repo's working tree and reports every stable-pass test that no longer passes.
out=${1:-/var/tmp/baseline_run.json}
: > $out
for m in $(cat /w/out/gomods.txt); do
  MF=$(cd /repo/$m && . /w/out/goenv.sh && gomodflag)
  (cd /repo/$m && go test $MF -json -vet=off -count=1 -timeout 25m ./...) >> $out 2>/dev/null
done
python3 - "$out" <<'PY'
import json, sys
status = {}
for ln in open(sys.argv[1], errors='replace'):
    try:
        e = json.loads(ln)
    except Exception:
        continue
    if e.get('Test') and e.get('Action') in ('pass', 'fail', 'skip'):
        status['%s::%s' % (e['Package'], e['Test'])] = e['Action']
base = json.load(open('/root/.vp/BASELINE.json'))['stable_pass']
bad = [t for t in base if status.get(t) != 'pass']
print('stable_pass tests: %d, passing now: %d, not passing: %d' % (len(base), len(base) - len(bad), len(bad)))
for t in bad[:40]:
    print('  NOT PASSING', t, status.get(t))
PY
