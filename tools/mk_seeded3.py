#!/usr/bin/env python3
"""Round 3: turns the agents' output directories under seeded/<Cxx>-r3-<n> into the
kept form (meta.json in the common format, confirm.log), from the confirmation logs
written by tools/confirm_seed.sh and the CAUGHT table below."""
import json, os, re, shutil, sys

V = '/verif'
CAUGHT = json.load(open(os.path.join(V, 'tools', 'caught_r3.json')))


def main():
    for name in sorted(CAUGHT):
        d = os.path.join(V, 'seeded', name)
        if not os.path.isdir(d):
            print('missing', name)
            continue
        log = '/var/tmp/confirm_%s.log' % name
        if os.path.exists(log):
            shutil.copy(log, os.path.join(d, 'confirm.log'))
        lg = open(os.path.join(d, 'confirm.log')).read() if os.path.exists(os.path.join(d, 'confirm.log')) else ''
        g = lambda pat: (re.findall(pat, lg) or ['?'])[-1]
        res = 'apply=%s build=%s demo_pristine=%s demo_patched=%s' % (g(r'apply exit=(\d+)'), g(r'build exit=([\d/]+)'), g(r'pristine demo exit=(\d+)'), g(r'patched demo exit=(\d+)'))
        ok = g(r'apply exit=(\d+)') == '0' and g(r'pristine demo exit=(\d+)') == '0' and g(r'patched demo exit=(\d+)') not in ('0', '?')
        am = json.load(open(os.path.join(d, 'meta.json')))
        if 'confirmed_by_me' in am and 'agent_meta' in am:
            am = am['agent_meta']
        meta = {
            'property': name.split('-')[0], 'round': 3,
            'summary': am.get('summary'), 'what_it_needs_to_manifest': am.get('what_it_needs_to_manifest'),
            'files_changed': am.get('files_changed'), 'patch': 'patch.diff',
            'demonstration': 'demo.sh (bash; run from the root of a worktree of /repo with this directory copied to out/%s)' % name.split('-')[-1],
            'confirmed_by_me': {'how': 'tools/confirm_seed.sh: scratch worktree of /repo HEAD under /tmp; demo on the pristine tree; git apply; go build ./... (fails on the pristine tree as well: LLVM 19 headers) and go build -tags llvm14 of ssa, cl, internal/build, internal/cabi; go test of the touched packages before and after; demo on the patched tree; worktree removed',
                                'result': res, 'kept': ok, 'log': 'confirm.log'},
            'agent_tests_run': am.get('agent_tests_run'), 'agent_demo_pristine': am.get('agent_demo_pristine'), 'agent_demo_patched': am.get('agent_demo_patched'),
            'checks_run_against_it': 'tools/run_seed.sh %s (git -C /repo apply <patch>; ./check %s --no-evidence; git -C /repo checkout -- .)' % (name, name.split('-')[0]),
            'caught_by': CAUGHT[name], 'agent_meta': am,
        }
        if os.path.exists(os.path.join(d, 'patch_original.diff')):
            meta['adapted'] = 'patch.diff is the agent\'s change re-applied by hand on top of a later fix: commit (patch_original.diff is what the agent delivered)'
        json.dump(meta, open(os.path.join(d, 'meta.json'), 'w'), indent=1)
        print(name, res, 'KEPT' if ok else 'NOT-KEPT')


main()
