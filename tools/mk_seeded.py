#!/usr/bin/env python3
"""(Historical) built /verif/seeded/<Cxx>-<n>/ from the raw agent output (seeded_raw,
since removed) plus the confirmation logs written by tools/confirm_seed.sh."""
import json, os, re, shutil, sys

V = '/verif'
CAUGHT = {
    'C01/1': 'C01 LoopLocal* (TV result/trace)', 'C01/2': 'C01 corpus-cabi ByvalAfterMutation',
    'C02/1': 'C02 ub.poison-result (R3-confirmed)', 'C02/2': 'C02 Conv_* results',
    'C03/1': 'C03 mem.oob (R3-confirmed)', 'C03/2': 'C03/C05 make.panic',
    'C04/1': 'C04 LoopDefers.trace', 'C04/2': 'MISSED: Goexit is outside the C04 claim',
    'C05/1': 'C05 utf8.decode', 'C05/2': 'C05 slice3.window',
    'C06/1': 'C06 chain.present', 'C06/2': 'MISSED: no float (NaN) keys, no iteration during growth',
    'C07/1': 'C07 nearmiss.Run.trace (R3-confirmed); also C14 descr.Run.trace and merge.global.*',
    'C07/2': 'C07 ub.uninit-callee (R3-confirmed)',
    'C09/1': 'C09 ub.call-abi.{c_sum,c_make,sum,mk}_<shape> in all four directions (natively confirmed)',
    'C09/2': 'C09 cstrcopy.nul / cstrdup.nul / cstring.nul / roundtrip.len',
    'C10/1': 'C10 select.closedbuffered', 'C10/2': 'C10 select.sendrecv.deadlock',
    'C11/1': 'C11 sema.*.deadlock', 'C11/2': 'C11 value.swap*.linearizable',
    'C12/1': 'C12 passthrough.Run.trace (R3-confirmed)', 'C12/2': 'MISSED: the entry module (main_module.go) is outside the C12 claim',
    'C13/1': 'NOT CHECKED: C13 is not claimed (not applicable for this technique)', 'C13/2': 'NOT CHECKED: C13 is not claimed',
    'C14/1': 'C14 generic.Run.trace and merge.func.lib.Size[struct{V model.T}] (link-order replay)',
    'C14/2': 'C14 descr.Run.trace and descr.merge.global.*; C07 nearmiss.Run.trace',
    'C16/1': 'MISSED: file-system resolution of patterns is outside the claimed part of C16', 'C16/2': 'C16 fsorder',
    'C17/1': 'C17 shell.dq / shell.sq', 'C17/2': 'C17 pkgconfig.roundtrip',
    'C18/1': 'C18 inherit.list', 'C18/2': 'C18 inherit.noerror',
    'C20/1': 'C20 confined / rejects', 'C20/2': 'C20 confined.link',
}


def main():
    summary = {}
    for ln in open('/var/tmp/confirm_summary.txt'):
        m = re.match(r'^(C\d\d)/(\d) (.*)$', ln.strip())
        if m:
            summary['%s/%s' % (m.group(1), m.group(2))] = m.group(3)
    kept = []
    for sid in sorted(CAUGHT):
        raw = os.path.join(V, 'seeded_raw', sid)
        if not os.path.isdir(raw) or sid not in summary:
            continue
        st = dict(kv.split('=', 1) for kv in summary[sid].split())
        ok = st.get('apply') == '0' and st.get('build', '').endswith('/0') and st.get('demo_pristine') == '0' and st.get('demo_patched') not in ('0', '', None)
        if not ok:
            print('NOT KEPT', sid, summary[sid])
            continue
        cid, n = sid.split('/')
        dst = os.path.join(V, 'seeded', '%s-%s' % (cid, n))
        shutil.rmtree(dst, ignore_errors=True)
        shutil.copytree(raw, dst, ignore=shutil.ignore_patterns('baseline*', 'llvm14_*', 'test_*', 'tests_*', 'default_baseline*', '*.log', 'root_baseline*'))
        if os.path.exists(os.path.join(dst, 'patch_adapted.diff')):
            os.rename(os.path.join(dst, 'patch.diff'), os.path.join(dst, 'patch_original.diff'))
            os.rename(os.path.join(dst, 'patch_adapted.diff'), os.path.join(dst, 'patch.diff'))
        am = json.load(open(os.path.join(raw, 'meta.json')))
        log = '/var/tmp/confirm_%s_%s.log' % (cid, n)
        if os.path.exists(log):
            shutil.copy(log, os.path.join(dst, 'confirm.log'))
        meta = {
            'property': cid,
            'summary': am.get('summary'),
            'what_it_needs_to_manifest': am.get('what_it_needs_to_manifest'),
            'files_changed': am.get('files_changed'),
            'patch': 'patch.diff' + (' (re-applied by hand with the same intent on top of later fix: commits; the agent\'s original is patch_original.diff)' if os.path.exists(os.path.join(dst, 'patch_original.diff')) else ''),
            'demonstration': 'demo.sh (run from the root of a worktree of /repo with this directory copied to out/%s)' % n,
            'confirmed_by_me': {
                'how': 'tools/confirm_seed.sh %s %s: scratch worktree of /repo HEAD under /tmp; demo on the pristine tree; git apply; go build ./... (exit 1 on the pristine tree as well: the default build needs LLVM 19 headers, as for the baseline [build failed] packages) and go build -tags llvm14 ./ssa/... ./cl/... ./internal/build/... ./internal/cabi/...; go test of the touched packages before and after; demo on the patched tree; worktree removed' % (cid, n),
                'result': summary[sid],
                'log': 'confirm.log',
            },
            'agent_tests_run': am.get('tests_run'),
            'checks_run_against_it': 'git -C /repo apply <patch>; ./check %s --no-evidence (and related checks); git -C /repo checkout -- .' % cid,
            'caught_by': CAUGHT[sid],
        }
        json.dump(meta, open(os.path.join(dst, 'meta.json'), 'w'), indent=1)
        kept.append(sid)
    print('kept', len(kept), kept)


main()
