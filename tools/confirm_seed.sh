#!/bin/bash
# confirm_seed.sh <Cxx> <n>: re-confirms a seeded change in a scratch worktree of
# /repo (HEAD): the demonstration passes on the pristine tree, the patch applies
# and compiles, the touched packages' tests behave as on the pristine tree, and
# the demonstration fails with the patch.  Writes /var/tmp/confirm_<id>_<n>.log
# and prints one summary line.  The worktree is removed afterwards.
id=$1; n=$2
name=${3:-$id-$n}
raw=/verif/seeded/$name
wt=/tmp/cw_${name}
log=/var/tmp/confirm_${name}.log
export GOFLAGS=-mod=mod GOPROXY=off
patch=$raw/patch.diff
git -C /repo worktree remove --force $wt >/dev/null 2>&1
rm -rf $wt
git -C /repo worktree add -q --detach $wt HEAD || { echo "$id/$n worktree-failed"; exit 2; }
mkdir -p $wt/out && cp -r $raw $wt/out/$n
cd $wt
{
echo "=== demo on pristine tree"
timeout 1800 bash out/$n/demo.sh; p_rc=$?
echo "=== pristine demo exit=$p_rc"
# packages touched by the patch (directories of .go files)
pk=$(grep '^+++ b/' $patch | sed 's#^+++ b/##' | grep '\.go$' | xargs -n1 dirname | sort -u)
tests_pristine=""
for d in $pk; do
  if [ -d $d ]; then
    case $d in runtime/*) (cd runtime && timeout 900 go test -vet=off -count=1 ./${d#runtime/}/ 2>&1 | tail -3);; *) timeout 900 go test -vet=off -count=1 ./$d/ 2>&1 | tail -3;; esac
  fi
done > /var/tmp/confirm_${id}_${n}_tp.txt 2>&1
echo "=== apply $patch"
git apply $patch; a_rc=$?
echo "=== apply exit=$a_rc"
echo "=== build"
go build ./... 2>&1 | tail -5; b1=${PIPESTATUS[0]}
go build -tags llvm14 ./ssa/... ./cl/... ./internal/build/... ./internal/cabi/... 2>&1 | tail -5; b2=${PIPESTATUS[0]}
(cd runtime && go build ./... 2>&1 | tail -5)
echo "=== build exit=$b1/$b2"
for d in $pk; do
  if [ -d $d ]; then
    case $d in runtime/*) (cd runtime && timeout 900 go test -vet=off -count=1 ./${d#runtime/}/ 2>&1 | tail -3);; *) timeout 900 go test -vet=off -count=1 ./$d/ 2>&1 | tail -3;; esac
  fi
done > /var/tmp/confirm_${id}_${n}_tq.txt 2>&1
echo "=== tests of touched packages, pristine vs patched (timings stripped)"
sed -E 's/[0-9.]+s//g' /var/tmp/confirm_${id}_${n}_tp.txt > /var/tmp/confirm_${id}_${n}_tp2.txt
sed -E 's/[0-9.]+s//g' /var/tmp/confirm_${id}_${n}_tq.txt > /var/tmp/confirm_${id}_${n}_tq2.txt
if diff /var/tmp/confirm_${id}_${n}_tp2.txt /var/tmp/confirm_${id}_${n}_tq2.txt; then t_same=same; else t_same=DIFFERENT; fi
cat /var/tmp/confirm_${id}_${n}_tq.txt
echo "=== demo on patched tree"
timeout 1800 bash out/$n/demo.sh; q_rc=$?
echo "=== patched demo exit=$q_rc"
} > $log 2>&1
p_rc=$(grep -o 'pristine demo exit=[0-9]*' $log | cut -d= -f2)
q_rc=$(grep -o 'patched demo exit=[0-9]*' $log | cut -d= -f2)
a_rc=$(grep -o 'apply exit=[0-9]*' $log | cut -d= -f2)
b_rc=$(grep -o 'build exit=[0-9/]*' $log | cut -d= -f2)
t_same=$(grep -q '^=== tests' $log && (diff -q /var/tmp/confirm_${id}_${n}_tp2.txt /var/tmp/confirm_${id}_${n}_tq2.txt >/dev/null && echo same || echo DIFFERENT))
cd /
git -C /repo worktree remove --force $wt >/dev/null 2>&1
rm -rf $wt /var/tmp/confirm_${id}_${n}_t*.txt
echo "$name patch=$(basename $patch) apply=$a_rc build=$b_rc tests=$t_same demo_pristine=$p_rc demo_patched=$q_rc"
