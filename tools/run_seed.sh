#!/bin/bash
# run_seed.sh <seed-dir-name> [check args...]: applies seeded/<name>/patch.diff to /repo,
# runs the property's check (no evidence written), and restores /repo.
name=$1; shift
p=${name%%-*}
cd /verif
[ -z "$(git -C /repo status --porcelain)" ] || { echo "/repo not clean"; exit 2; }
git -C /repo apply /verif/seeded/$name/patch.diff || { echo "$name: patch does not apply"; exit 2; }
./check $p --no-evidence "$@" > /var/tmp/seedrun_$name.log 2>&1; rc=$?
git -C /repo checkout -- . ; git -C /repo clean -fdq
echo "$name rc=$rc $(grep -c '^VIOLATION' /var/tmp/seedrun_$name.log) violations, $(grep -c '^UNCONFIRMED' /var/tmp/seedrun_$name.log) unconfirmed, $(grep -c '^INFRA' /var/tmp/seedrun_$name.log) infra"
grep -A1 '^VIOLATION\|^UNCONFIRMED\|^INFRA' /var/tmp/seedrun_$name.log | cut -c1-260 | head -12
