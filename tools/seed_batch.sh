#!/bin/bash
# seed_batch.sh <name>...: confirm each seeded change in a scratch worktree, then run the property's check against it
for s in "$@"; do p=${s%%-*}; n=${s##*-}; /verif/tools/confirm_seed.sh $p $n $s; cp /var/tmp/confirm_$s.log /verif/seeded/$s/confirm.log 2>/dev/null; /verif/tools/run_seed.sh $s; done
