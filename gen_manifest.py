#!/usr/bin/env python3
"""Regenerates MANIFEST.json from checks/spec.py (claimed properties) and the
not-applicable table below."""
import json, os, sys
sys.path.insert(0, os.path.join(os.path.dirname(os.path.abspath(__file__)), 'checks'))
import spec

NA = {
    'C13': 'reproducible builds / cache staleness: the cache key is the SHA-256 of a YAML document that go.yaml.in/yaml/v3 marshals by reflection from os.Stat digests, go list output and environment probes (clang --version), and the property is quantified over histories of file edits against an on-disk cache; reflection-driven marshalling, process and file-system effects cannot be encoded by the hand-written go/ssa executor, and the encodable remainder (injectivity of three collect* helpers on stub inputs) would not decide the property (DESIGN.md 9.6)',
    'C08': 'size/alignment/offset agreement is quantified over Go *types* (go/types object graphs, LLVM TargetData behind cgo); there is no numeric input to make symbolic and the cgo side cannot be encoded - deciding it means enumerating types, a different technique (DESIGN.md section 4)',
    'C15': 'reflect/fmt: thousands of lines of reflection over run-time descriptors and string formatting, quantified over type shapes; needs whole-program execution of llgo output, which this sandbox (LLVM 14 only, no linker set-up) and a hand-written symbolic executor cannot reach (DESIGN.md section 4)',
    'C19': 'Go<->Python: the other side of every clause is CPython behind FFI, whose semantics cannot be encoded; no CPython-linked llgo program can be built here (DESIGN.md section 4)',
}
PENDING = 'check not built yet in this session (see DESIGN.md section 8 build order); not claimed until it runs clean'

LEVEL_TEXT = {
    'C09': '(a) Bounded symbolic verification of the runtime C-string / C-buffer helpers (CStrCopy, CStrDup, CString, StringFromCStr, GoString, CBytes, GoBytes): all strings <= 4 bytes over arbitrary previous buffer contents. (b) For 112 struct shapes (every 1- and 2-field combination of int8..int64/float/double/pointer, selected 3..17-field, nested and array shapes; +250 random shapes in thorough) x six positions (argument to C after one, after five integer and after seven double arguments - the latter two exhaust the argument registers -, result from C, argument of a Go callback called from C, result of a Go callback): llgo\'s IR after its C-ABI transformation and the host C compiler\'s (clang-14) IR of the C side are executed together on symbolic field bits; the solver proves every field arrives intact, and every call between the sides must match its definition in flattened scalar types and byval/sret/extension attributes.',
    'C06': 'Bounded symbolic verification of the real runtime map.go (mapassign / mapaccess1,2 / mapdelete / mapclear / mapiterinit+next, growth and evacuation) against a ghost finite map: arbitrary (solver-chosen) hash function, symbolic keys and values, scripted and symbolic operation sequences within the stated lengths, including an all-colliding hash that forces overflow chains and same-size growth.',
    'C07': 'Translation validation of generated multi-package programs in which 61 near-miss type pairs (one attribute apart: field names, tags, embedding, package of unexported names, variadic-ness, channel direction, generic instances, local types) and 12 (concrete type, interface) pairs meet at run time through assertion, type switch, ==, any-keyed maps and method calls: the oracle decides identity / method sets with go/types, llgo\'s descriptors (emitted IR) are interpreted by llgo\'s own runtime source (Implements, NewItab, EfaceEqual, typehash, map.go). Plus equivalence of every multiply-defined descriptor symbol.',
    'C12': 'Translation validation of generated multi-package programs whose package-level variables depend on each other across files and packages and on external values: the synthesized initialisers (dependencies first, variables in dependency order, init functions in source order, once) are executed on llgo\'s IR of every package and compared, as external-call traces and results, with Go-specification initialisation order (go/ssa init functions) for every external value.',
    'C14': 'Translation validation of naming-stress multi-package programs (same-named methods / functions / packages, nested closures in methods, generic functions, types and methods instantiated in several packages with local, aliased and composite type arguments, descriptor near-misses) plus a solver-checked merge-equivalence: every symbol that several modules define must be mergeable and its definitions equivalent (function bodies compared on arbitrary arguments, constant data structurally).',
    'C01': 'Translation validation of a corpus of core-language functions (branches, loops, labelled jumps, switch, multiple assignment, structs/arrays by value and through pointers, closures, methods, embedding, interfaces, type switches, generics, every range form, evaluation order, strings/slices): each function is executed under Go-specification semantics on its own unmodified go/ssa build and on the IR llgo\'s real pipeline emits (both before and after the default C-ABI transformation), with llgo\'s runtime entry points executed from their Go source; the solver proves equal results / panics / external-call traces for all argument values within the loop bound.',
    'C03': 'Translation validation of 147 one-statement functions bracketed by trace calls (index / slice / slice-to-array / make forms x every index type, nil dereferences, array lengths at index-type maxima) plus bounded symbolic verification of the runtime checks NewSlice3, StringSlice, MakeSlice and Assert* for all 64-bit argument values.',
    'C04': 'Translation validation of defer/panic/recover shapes (12 hand-written incl. re-panic while a panic is pending + 33 generated from a defer-shape grammar; 300 in the thorough tier): llgo\'s setjmp/longjmp + indirectbr defer machinery and its real runtime.Panic/Rethrow/Recover are executed symbolically against Go-specification defer semantics; deferred-call order and arguments (trace), named results and final panic state must agree for all inputs.',
    'C10': 'Bounded model checking of the real z_chan.go under a symbolic scheduler: every interleaving at lock / condition-wait granularity (preemption-bounded, spurious wake-ups in the thorough tier) of 2-3 threads performing send / receive / close / select on channels of capacity 0-1, with symbolic element values, plus the buffered ring at every head position for capacities 1-3 with sends through ChanSend and ChanTrySend (the select path); verdicts: delivered exactly once, ok flags, select commits a ready case, no deadlock while operations could complete.',
    'C11': 'Bounded model checking under the same symbolic scheduler of llgo\'s semaphore (semaAcquire/semaRelease), notify list (the primitives under sync.Mutex/Cond/WaitGroup) and sync/atomic.Value: no lost wake-up, mutual exclusion, Wait returns only for a covered ticket, Swap/CompareAndSwap linearizable, first write through Store / Swap / CompareAndSwap never exposes a half-published value. Scheduling points sit before and after every atomic operation, so check-then-act races on plain memory next to atomics are explored.',
    'C16': 'Bounded symbolic differential of llgo\'s //go:embed directive parsing against the reference toolchain\'s own go/build.parseGoEmbed (copied verbatim from GOROOT at check time): all argument texts <= 3 bytes (4 in thorough) over a 12-byte stress alphabet, directive recognition, and the embed.FS sort key against embed.split.',
    'C20': 'Bounded symbolic verification of extractTarGz / extractZip with the archive readers replaced by nondeterministic stubs: for every entry name <= 5 bytes (7 in thorough), type flag and link name, every file-system call stays inside the destination, escaping entries are rejected, benign entries are accepted.',
    'C02': 'Bounded differential of the runtime\'s Complex128Div against the reference toolchain\'s own complex128div (copied verbatim from GOROOT at check time) on all 4096 combinations of the special values {+0,-0,1,-2.5,+Inf,-Inf,NaN,MaxFloat64}; and translation validation per one-operator function: the function is executed under Go-specification semantics (go/ssa) and on the LLVM IR that llgo\'s real pipeline (build.Do) emits for it; the solver proves equal result / equal panic status and absence of LLVM poison or UB for ALL operand values at full width (633 functions: every operator x 11 integer types, all 121 shift operand/count pairs, all integer conversion pairs, float32/64 arithmetic, comparisons and int<->float conversions, complex + - * == !=).',
    'C05': 'Bounded symbolic verification of the runtime slice/string kernels (go/ssa of runtime/internal/runtime executed symbolically): one step from an arbitrary valid pre-state per kernel, all element values and all header values within the stated element-count bounds; UTF-8 decode/encode differential against unicode/utf8 for all byte strings <= 5 bytes and all 2^32 runes; string kernels (StringEqual / StringLess incl. operands that are windows of one buffer, StringCat, StringToBytes / StringFromBytes round trip and freshness, StringIterNext) for all strings <= 3 bytes. The solver verdict covers every input inside the bounds; nothing is sampled.',
    'C17': 'Bounded symbolic verification of the round-trip laws of shellparse.Parse (double-quoted, single-quoted and unquoted arguments) and safesplit.SplitPkgConfigFlags over all argument lists within the stated rune/byte bounds (runes symbolic over Latin-1 plus wide runes, bytes fully symbolic).',
    'C18': 'Bounded symbolic verification of targets.Loader: the merge law for every field of Config (harness generated from the struct definition at check time) and inheritance resolution over all graphs on 2-3 nodes (chains, diamonds, cycles, self-loops, missing parents) against an independent reference, as a history of loads through one loader.',
}
NOTE = {
    'C09': 'x86-64 SysV only, llgo ABI mode 2 (default), C side at -O0 for the symbolic run (-O2 and -O0 in the native replay); agreement is checked at LLVM-IR level (both sides lowered by the same LLVM back end): register assignment inside the back end is trusted. Variadic calls, other mixes of extra arguments than 1 / 5 integer / 7 double leading ones, compiling C files through internal/build and C.CString of strings with interior NUL are outside. Known findings: narrow integers passed without signext/zeroext; register-sized structs still split into scalars when the argument registers are used up.',
    'C06': 'Maps with <= 9 live entries (<= 2 growths) in quick, key kinds uint64 / string-like / colliding; NaN keys, iteration order randomisation while growing and the compiler lowering of map operations (covered by C01 corpus entries only) are outside.',
    'C07': 'The quantifier all pairs of types is met through the listed pairs only; reflect type comparison and the pure naming API sweep are outside (enumeration, not solver work). Counterexample replay: llc-14 build of every package + llgo\'s runtime IR vs the Go toolchain.',
    'C12': 'Five program shapes (chain, diamond, pass-through package, function-valued initialisers, one package in three files); the entry module that calls runtime.init / main.init (internal/build main_module.go) is outside: the check starts at the root package initialiser.',
    'C14': 'Three program shapes; linkname/export directives and C-callback wrappers are outside; equivalence of descriptor data is structural (private string constants compared by content).',
    'C01': 'The quantifier all programs is met only through the hand-written corpus (58 functions, each also after the default cabi transform) and a grammar-generated sample of total integer/array/struct/closure functions (48 quick, 200 thorough, VERIF_SEED selects the sample; per-function budget 30 s / 90 s, overruns are reported inconclusive); loop bound 8; LLVM 14 binding as IR producer; optimisation level O2, linking, process exit codes and gc/nogc configuration are outside. Known finding: ssa_order_fix.',
    'C03': 'Signal delivery (SIGSEGV re-arming) is not modelled; nil-map writes and failed type assertions (llgo raises the latter with a string value, not a runtime.Error - the property only asks for a panic) are covered by 7 forms; channel panics (send on / close of a closed or nil channel, plain and in select) are covered for one goroutine through 9 forms against an oracle channel model; nil faults are modelled as accesses inside the unmapped 1 MiB nil region.',
    'C04': 'Goexit, goroutine-exit defers and O2 are outside; the corpus is fixed (not seeded) because llgo\'s defer lowering has known defects (three recorded known findings).',
    'C10': 'Preemption bound 2 (3 thorough), no spurious wake-ups in quick; >= 4 threads, timers and the compiler lowering of select/chan ops are outside. Known finding: close racing an unbuffered hand-off.',
    'C11': 'The standard library sync types on top of these primitives, goroutine start (go statement lowering) and atomics lowering are outside this check; preemption bound 2 (3 in the thorough tier for the semaphore / notify-list configurations; 2 in both tiers for atomic.Value, where 3 does not finish); spin-wait paths are cut after 300 scheduling points (reported inconclusive).',
    'C16': 'File-system resolution of patterns (ResolvePatterns, CheckPath) is outside (needs a real directory tree and go list as oracle).',
    'C20': 'Environment stubs: os.Open, gzip/tar/zip readers, os.MkdirAll/OpenFile/Create/Symlink (events), io.Copy; names contain no NUL; xz extraction (external tar), file contents and lock-file concurrency are outside.',
    'C02': 'Trusted: z3/cvc5, go/ssa, symx encodings of Go operator semantics and of LLVM LangRef 14 (poison rules), LLVM 14 binding as IR producer (instruction selection by llgo\'s cl/ssa is the same Go code as with LLVM 19). Wide division is abstracted as an uninterpreted function with concrete-evaluation refinement (sound for unsat). Float->int only on the representable range; complex division, NaN payloads and constant-folded expressions are outside.',
    'C05': 'Trusted: z3/cvc5, go/ssa, symx encodings of Go semantics and of memcpy/memmove/AllocZ/AllocU (DESIGN.md 2.4). Bounds: backing store <= 4 elements, element sizes {0,1,2,3,8,24}, appended <= 3 elements; longer histories are covered by induction on the slice invariant 0<=len<=cap. Compiler lowering of the operations is not part of this check.',
    'C17': 'Arguments are valid UTF-8; <= 3 runes per argument / <= 2 arguments; pkg-config bodies <= 3 bytes, domain assumptions stated in the harness (no leading dash, no trailing backslash, no edge white space - the latter is a recorded known finding). Build tags, -X parsing and $()/env expansion are outside this check.',
    'C18': 'Strings <= 2 bytes, lists <= 2 entries, graphs <= 3 nodes with <= 2 parents each; os.ReadFile is a stub that fails (missing file). The sweep over the shipped targets/*.json is concrete enumeration and outside this technique.',
}
TECH_TV = 'SMT-based translation validation: Go-spec semantics of go/ssa vs. symbolic execution of llgo-emitted LLVM IR (QF_BV/FP, z3/cvc5), counterexamples replayed via llc-14 + C driver against the Go toolchain'
TECH_MC = 'SMT-based bounded model checking: the real Go code (go/ssa) under a symbolic scheduler whose choices are solver variables; counterexample schedules replayed natively on the verbatim code'
TECH = 'SMT-based bounded symbolic execution of the real Go code (go/ssa -> QF_BV, z3/cvc5), counterexamples replayed natively'

checks = []
for pid in sorted(spec.PROPS):
    P = spec.PROPS[pid]
    checks.append({
        'property_id': pid,
        'quick_cmd': './check %s --tier quick' % pid,
        'thorough_cmd': './check %s --tier thorough' % pid,
        'evidence_file': '/verif/evidence/%s.json' % pid,
        'replay_cmd_template': './check %s --replay {path}' % pid,
        'engine': 'symx',
        'level_claimed': {'category': P.get('level', 'other'), 'text': LEVEL_TEXT.get(pid, ''), 'design_ref': 'DESIGN.md section 3, ' + pid},
        'level_note': NOTE.get(pid, ''),
        'technique': P.get('technique', TECH_TV if P.get('level') == 'translation_validation' else (TECH_MC if P.get('level') == 'model_checking' else TECH)),
    })
na = []
for l in open(os.path.join(os.path.dirname(os.path.abspath(__file__)), 'properties.jsonl')):
    pid = json.loads(l)['id']
    if pid in spec.PROPS:
        continue
    na.append({'property_id': pid, 'reason': NA.get(pid, PENDING)})
m = {
    'version': 1,
    'setup_cmd': './setup.sh',
    'hooks': {
        'guard': 'verif',
        'enable': 'no hook commits: symx is compiled inside /repo\'s module through `go build -overlay` (virtual directory /repo/zz_verif_symx mapped to /verif/symx) and harness files are injected with go/packages overlays; the build tag `verif` is reserved and unused',
        'baseline_off_cmd': 'for m in . ./runtime; do (cd /repo/$m && GOFLAGS=-mod=mod go test -json -vet=off -count=1 -timeout 25m ./...); done',
        'source_commits': [],
        'add_only': True,
    },
    'engines': [{'name': 'symx', 'path': '/verif/symx', 'serves_properties': sorted(spec.PROPS),
                 'kind_free_text': 'hand-written symbolic executor: go/ssa (front end G) and llgo-emitted LLVM IR (front end L) to QF_BV SMT-LIB, z3 4.8.12 / z3 5.1.0 / cvc5 1.0.3 portfolio'}],
    'checks': checks,
    'not_applicable': na,
    'notes': 'All checks rebuild symx against /repo\'s working tree and regenerate every encoding from the current sources. Exit 0 = held within bounds, 1 = replay-confirmed VIOLATION, 2 = infrastructure failure. Known findings: /verif/known_findings.txt.',
}
json.dump(m, open(os.path.join(os.path.dirname(os.path.abspath(__file__)), 'MANIFEST.json'), 'w'), indent=1)
print('claimed:', sorted(spec.PROPS), 'not applicable / pending:', [n['property_id'] for n in na])
