#!/usr/bin/env python3
"""Regenerates MANIFEST.json from checks/spec.py (claimed properties) and the
not-applicable table below."""
import json, os, sys
sys.path.insert(0, os.path.join(os.path.dirname(os.path.abspath(__file__)), 'checks'))
import spec

NA = {
    'C08': 'size/alignment/offset agreement is quantified over Go *types* (go/types object graphs, LLVM TargetData behind cgo); there is no numeric input to make symbolic and the cgo side cannot be encoded - deciding it means enumerating types, a different technique (DESIGN.md section 4)',
    'C15': 'reflect/fmt: thousands of lines of reflection over run-time descriptors and string formatting, quantified over type shapes; needs whole-program execution of llgo output, which this sandbox (LLVM 14 only, no linker set-up) and a hand-written symbolic executor cannot reach (DESIGN.md section 4)',
    'C19': 'Go<->Python: the other side of every clause is CPython behind FFI, whose semantics cannot be encoded; no CPython-linked llgo program can be built here (DESIGN.md section 4)',
}
PENDING = 'check not built yet in this session (see DESIGN.md section 8 build order); not claimed until it runs clean'

LEVEL_TEXT = {
    'C02': 'Translation validation per one-operator function: the function is executed under Go-specification semantics (go/ssa) and on the LLVM IR that llgo\'s real pipeline (build.Do) emits for it; the solver proves equal result / equal panic status and absence of LLVM poison or UB for ALL operand values at full width (633 functions: every operator x 11 integer types, all 121 shift operand/count pairs, all integer conversion pairs, float32/64 arithmetic, comparisons and int<->float conversions, complex + - * == !=).',
    'C05': 'Bounded symbolic verification of the runtime slice/string kernels (go/ssa of runtime/internal/runtime executed symbolically): one step from an arbitrary valid pre-state per kernel, all element values and all header values within the stated element-count bounds; UTF-8 decode/encode differential against unicode/utf8 for all byte strings <= 5 bytes and all 2^32 runes. The solver verdict covers every input inside the bounds; nothing is sampled.',
    'C17': 'Bounded symbolic verification of the round-trip laws of shellparse.Parse and safesplit.SplitPkgConfigFlags over all argument lists within the stated rune/byte bounds (runes symbolic over Latin-1 plus wide runes, bytes fully symbolic).',
    'C18': 'Bounded symbolic verification of targets.Loader: the merge law for every field of Config (harness generated from the struct definition at check time) and inheritance resolution over all graphs on 2-3 nodes (chains, diamonds, cycles, self-loops, missing parents) against an independent reference, as a history of loads through one loader.',
}
NOTE = {
    'C02': 'Trusted: z3/cvc5, go/ssa, symx encodings of Go operator semantics and of LLVM LangRef 14 (poison rules), LLVM 14 binding as IR producer (instruction selection by llgo\'s cl/ssa is the same Go code as with LLVM 19). Wide division is abstracted as an uninterpreted function with concrete-evaluation refinement (sound for unsat). Float->int only on the representable range; complex division, NaN payloads and constant-folded expressions are outside.',
    'C05': 'Trusted: z3/cvc5, go/ssa, symx encodings of Go semantics and of memcpy/memmove/AllocZ/AllocU (DESIGN.md 2.4). Bounds: backing store <= 4 elements, element sizes {0,1,2,3,8,24}, appended <= 3 elements; longer histories are covered by induction on the slice invariant 0<=len<=cap. Compiler lowering of the operations is not part of this check.',
    'C17': 'Arguments are valid UTF-8; <= 3 runes per argument / <= 2 arguments; pkg-config bodies <= 3 bytes, domain assumptions stated in the harness (no leading dash, no trailing backslash, no edge white space - the latter is a recorded known finding). Build tags, -X parsing and $()/env expansion are outside this check.',
    'C18': 'Strings <= 2 bytes, lists <= 2 entries, graphs <= 3 nodes with <= 2 parents each; os.ReadFile is a stub that fails (missing file). The sweep over the shipped targets/*.json is concrete enumeration and outside this technique.',
}
TECH_TV = 'SMT-based translation validation: Go-spec semantics of go/ssa vs. symbolic execution of llgo-emitted LLVM IR (QF_BV/FP, z3/cvc5), counterexamples replayed via llc-14 + C driver against the Go toolchain'
TECH = 'SMT-based bounded symbolic execution of the real Go code (go/ssa -> QF_BV, z3/cvc5), counterexamples replayed natively'

checks = []
for pid in sorted(spec.PROPS):
    P = spec.PROPS[pid]
    checks.append({
        'property_id': pid,
        'quick_cmd': './check %s --tier quick' % pid,
        'thorough_cmd': './check %s --tier thorough' % pid,
        'evidence_file': '/verif/evidence/%s.json' % pid,
        'replay_cmd_template': './check %s --replay {path}' % pid,
        'engine': 'symx',
        'level_claimed': {'category': P.get('level', 'other'), 'text': LEVEL_TEXT.get(pid, ''), 'design_ref': 'DESIGN.md section 3, ' + pid},
        'level_note': NOTE.get(pid, ''),
        'technique': P.get('technique', TECH_TV if P.get('level') == 'translation_validation' else TECH),
    })
na = []
for l in open(os.path.join(os.path.dirname(os.path.abspath(__file__)), 'properties.jsonl')):
    pid = json.loads(l)['id']
    if pid in spec.PROPS:
        continue
    na.append({'property_id': pid, 'reason': NA.get(pid, PENDING)})
m = {
    'version': 1,
    'setup_cmd': './setup.sh',
    'hooks': {
        'guard': 'verif',
        'enable': 'no hook commits: symx is compiled inside /repo\'s module through `go build -overlay` (virtual directory /repo/zz_verif_symx mapped to /verif/symx) and harness files are injected with go/packages overlays; the build tag `verif` is reserved and unused',
        'baseline_off_cmd': 'for m in . ./runtime; do (cd /repo/$m && GOFLAGS=-mod=mod go test -json -vet=off -count=1 -timeout 25m ./...); done',
        'source_commits': [],
        'add_only': True,
    },
    'engines': [{'name': 'symx', 'path': '/verif/symx', 'serves_properties': sorted(spec.PROPS),
                 'kind_free_text': 'hand-written symbolic executor: go/ssa (front end G) and llgo-emitted LLVM IR (front end L) to QF_BV SMT-LIB, z3 4.8.12 / z3 5.1.0 / cvc5 1.0.3 portfolio'}],
    'checks': checks,
    'not_applicable': na,
    'notes': 'All checks rebuild symx against /repo\'s working tree and regenerate every encoding from the current sources. Exit 0 = held within bounds, 1 = replay-confirmed VIOLATION, 2 = infrastructure failure. Known findings: /verif/known_findings.txt.',
}
json.dump(m, open(os.path.join(os.path.dirname(os.path.abspath(__file__)), 'MANIFEST.json'), 'w'), indent=1)
print('claimed:', sorted(spec.PROPS), 'not applicable / pending:', [n['property_id'] for n in na])
