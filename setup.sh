#!/bin/bash
# Offline build of the framework (run once after a fresh restore).
set -e
cd "$(dirname "$0")"
export GOFLAGS=-mod=mod GOPROXY=off
./build_symx.sh
# warm the package loader / build cache for the packages the checks load
(cd /repo && go build ./internal/shellparse ./xtool/safesplit ./internal/targets ./internal/goembed ./internal/crosscompile 2>/dev/null || true)
echo "setup ok: $(ls -la .bin/symx | awk '{print $5}') bytes"
